#!/venv/bin/python
"""C04 replay / counterexample search: run verdict and stop control agree with the outcomes reported.

ORACLE (written from the property statement; only public behaviour is observed).
A scenario builds a stack of testtools results, drives it, and compares with a tiny model that only
remembers: tests started and problems (error / failure / unexpected success) since the last
startTestRun, whether failfast is on, and whether the run has been stopped.
 * verdict: after every call, top.wasSuccessful() is False iff a problem was reported since the last
   startTestRun.  Exact when every leaf is one of testtools' own results (TestResult, TextTestResult,
   TestByTestResult); with a doubles leaf in the stack only "some own leaf saw a problem -> False" is
   required; for ExtendedToStreamDecorator error/failure -> False and no problem -> True (its answer
   after an unexpected success alone is not covered by the statement and is not judged).
 * stop control: shouldStop (top and every underlying result) is False until either stop() is called on
   the top of the stack or, with failfast on, the first problem is reported; from that call on it is True
   on the top, and right after an explicit stop() also on every underlying result.  What startTestRun
   does to an already stopped result is not specified: the model re-reads the flag there.
 * TextTestResult: the text written by stopTestRun has one "Ran N test(s)" line with N = tests since
   startTestRun, exactly one verdict line, "OK" iff no problem else "FAILED (failures=K)" with K = number
   of problems, and one ERROR/FAIL/UNEXPECTED SUCCESS section per problem carrying that test's id.
 * suites: a unittest.TestSuite / ConcurrentTestSuite (one partition) of real TestCases runs exactly the
   tests up to and including the first one that stops the run (failfast problem, or a test calling stop()
   on the top of the stack), and all of them otherwise.
 * testtools.run: exit status is 1 iff a problem was reported (0 otherwise, also for no tests), -f stops
   after the first problem, and the printed summary agrees (in process and via python -m testtools.run).
Any exception escaping the code under test is a violation as well.

ENUMERATION.  Stacks: leaves TR, Text, TBT (own), ETSD (ExtendedToStreamDecorator over a stream double;
failfast = StreamFailFast) and the py26/py27/extended/twisted doubles (behind the ETOD that ETOD / Multi /
TFR above them provide, else behind their own); wrappers ETOD, TRD (TestResultDecorator), Tagger, TFR, Multi, depth 0..3.  failfast: off,
"before" (constructor / attribute before wrapping), "after" (on the underlying results after wrapping),
"top" (on the outermost adapter, only where every layer forwards the attribute: ETOD / Multi chains).
Exhaustive part: every history of <= 2 outcomes (6 outcomes, exc_info or details form) with no / one run
boundary, every pair of <= 1-outcome runs (second startTestRun), stop() in the middle, over all depth <= 1
stacks and modes; 9 representative histories over all depth 2..3 chains; suites of <= 3 tests (two
TestCase flavours, two suite kinds, stop() from inside a test); testtools.run in process and as a
subprocess.  Then seeded random (VERIF_SEED) larger scenarios until the budget is used up.
"""

import argparse, io, itertools, json, os, random, re, signal, subprocess, sys, tempfile, threading
import time, traceback, types, unittest, warnings

OWN, DOUBLES, OUT = ("TR", "Text", "TBT"), ("py26", "py27", "ext", "twisted"), "SEFKXU"
LEAVES = OWN + ("ETSD",) + DOUBLES
WRAPPERS = ("ETOD", "TRD", "Tagger", "TFR", "Multi")
MODES = ("off", "before", "after", "top")
LABEL = {"E": "ERROR", "F": "FAIL", "U": "UNEXPECTED SUCCESS"}
SECTION = r"^={70}\n(ERROR|FAIL|UNEXPECTED SUCCESS): (.*)\n-{70}\n"
STOP_RULE = ("shouldStop is False until stop() is called or (failfast on) the first error/failure/"
             "unexpected success is reported, and True from that call on, on the top and underneath")


class HarnessError(Exception):
    pass


class Violation(Exception):
    def __init__(self, observed, required):
        super().__init__(observed)
        self.observed, self.required = observed, required


def real(what, fn, *args, **kwargs):
    """Call into the code under test; an escaping exception is itself a finding."""
    try:
        return fn(*args, **kwargs)
    except Exception as e:
        raise Violation("%s raised %s: %s" % (what, type(e).__name__, e),
                        "the call completes and the verdict / stop flag can be observed")


def validate(spec):
    if isinstance(spec, str):
        if spec not in LEAVES:
            raise HarnessError("unknown leaf %r" % (spec,))
    elif (isinstance(spec, list) and spec and spec[0] in WRAPPERS and len(spec) >= 2
          and (spec[0] == "Multi" or len(spec) == 2)):
        for kid in spec[1:]:
            validate(kid)
    else:
        raise HarnessError("bad stack spec %r" % (spec,))


def plumbed(spec):
    """True when setting failfast on the outermost object is documented to reach every leaf."""
    if isinstance(spec, str):
        return True
    return spec[0] in ("ETOD", "Multi") and all(plumbed(k) for k in spec[1:])


def applicable(sc):
    """False for the two corners the statement leaves open (never enumerated, exit 2 on --scenario)."""
    if sc["failfast"] == "top" and not plumbed(sc["stack"]):
        return False  # TestResultDecorator / Tagger / TFR do not forward a failfast attribute
    if '"ETSD"' in json.dumps(sc["stack"]):
        # ExtendedToStreamDecorator begins a run by itself at first use; what beginning a run does
        # to an already stopped result is unspecified, so no stop() before the first startTestRun.
        if sc["kind"] == "suite":
            return sc.get("stop_at") is None or bool(sc["boundaries"])
        ops = sc["ops"]
        return "stop" not in (ops[:ops.index("start")] if "start" in ops else ops)
    return True


class Stack:
    """Builds the result stack of a spec; .top is driven, .units are the underlying results."""

    def __init__(self, spec, failfast):
        self.units, self.kinds, self.texts, self.pre = [], [], [], failfast == "before"
        self.top = self._build(spec)
        if failfast == "after":
            for unit in self.units:
                unit.failfast = True
        elif failfast == "top":
            self.top.failfast = True

    def _build(self, spec, parent=None):
        import testtools
        from testtools.testresult import doubles, real as R
        if isinstance(spec, str):
            if spec == "TR":
                obj = testtools.TestResult(failfast=self.pre)
            elif spec == "Text":
                obj = testtools.TextTestResult(io.StringIO(), failfast=self.pre)
                self.texts.append(obj)
            elif spec == "TBT":
                obj = testtools.TestByTestResult(lambda **kw: None)
            elif spec == "ETSD":
                obj = testtools.ExtendedToStreamDecorator(doubles.StreamResult())
            else:  # the doubles rely on an ETOD: the one ETOD / Multi / TFR put there, else their own
                obj = {"py26": doubles.Python26TestResult, "py27": doubles.Python27TestResult,
                       "ext": doubles.ExtendedTestResult, "twisted": doubles.TwistedTestResult}[spec]()
                if parent not in ("ETOD", "Multi", "TFR"):
                    obj = testtools.ExtendedToOriginalDecorator(obj)
            if self.pre and spec not in ("TR", "Text"):
                obj.failfast = True
            self.units.append(obj)
            self.kinds.append(spec)
            return obj
        kids = [self._build(k, spec[0]) for k in spec[1:]]
        if spec[0] == "ETOD":
            return testtools.ExtendedToOriginalDecorator(kids[0])
        if spec[0] == "TRD":
            return R.TestResultDecorator(kids[0])
        if spec[0] == "Tagger":
            return testtools.Tagger(kids[0], {"c04"}, set())
        if spec[0] == "TFR":
            return testtools.ThreadsafeForwardingResult(kids[0], threading.Semaphore(1))
        return testtools.MultiTestResult(*kids)


class Model:
    def __init__(self, sc, stack):
        self.sc, self.stack, self.ff = sc, stack, sc["failfast"] != "off"
        self.n, self.problems, self.stopped = 0, [], False

    def verdict(self):
        bad = bool(self.problems)
        hard = any(label != LABEL["U"] for label, _ in self.problems)
        per = [(not bad) if k in OWN else (False if hard else None if bad else True) if k == "ETSD"
               else None for k in self.stack.kinds]
        return False if False in per else True if all(p is True for p in per) else None

    def problem(self, letter, test_id):
        self.problems.append((LABEL[letter], test_id))
        self.stopped = self.stopped or self.ff

    def start_run(self):
        self.n, self.problems = 0, []
        if self.stopped:  # unspecified whether a new run clears the flag: re-read it
            self.stopped = bool(real("shouldStop", getattr, self.stack.top, "shouldStop"))

    def check(self, where, fresh_stop=False):
        top, want = self.stack.top, self.verdict()
        got = real("wasSuccessful()", top.wasSuccessful)
        if want is not None and bool(got) != want:
            raise Violation("%s: wasSuccessful() == %r with problems since startTestRun = %r"
                            % (where, got, self.problems),
                            "wasSuccessful() is %r: it is False exactly when an error, failure or "
                            "unexpected success was reported since the last startTestRun" % want)
        got = real("shouldStop", getattr, top, "shouldStop")
        if bool(got) != self.stopped:
            raise Violation("%s: shouldStop == %r on the top of the stack (failfast %s)"
                            % (where, got, self.sc["failfast"]), STOP_RULE + "; here " + str(self.stopped))
        if fresh_stop or not self.stopped:
            flags = [real("shouldStop", getattr, u, "shouldStop", None) for u in self.stack.units]
            if any(f is not None and bool(f) != self.stopped for f in flags):  # None: Twisted-style
                raise Violation("%s: shouldStop of the underlying results %r == %r"
                                % (where, self.stack.kinds, flags), STOP_RULE + "; here all " + str(self.stopped))

    def check_texts(self, where, texts):
        for text in texts:
            check_summary(text, self.n, self.problems, where)


def check_summary(text, n, problems, where):
    ran = re.findall(r"^Ran (\d+) tests? in ", text, re.M)
    verdicts = [v[0] for v in re.findall(r"^(OK|FAILED \(failures=(\d+)\))$", text, re.M)]
    sections = sorted(re.findall(SECTION, text, re.M))
    want = "OK" if not problems else "FAILED (failures=%d)" % len(problems)
    if ran != [str(n)] or verdicts != [want] or sections != sorted(problems):
        raise Violation("%s: summary has Ran=%r verdict=%r sections=%r; text=%r"
                        % (where, ran, verdicts, sections, text[-600:]),
                        "one 'Ran %d test(s)' line, exactly one verdict line %r, and one section per "
                        "problem: %r" % (n, want, sorted(problems)))


def exc_info(kind):
    try:
        raise (AssertionError if kind == "F" else RuntimeError)("boom")
    except Exception:
        return sys.exc_info()


def run_history(sc):
    import testtools
    from testtools.content import text_content
    stack = real("building the stack", Stack, sc["stack"], sc["failfast"])
    model, top = Model(sc, stack), stack.top

    class Sample(testtools.TestCase):
        def test_it(self):
            pass
    model.check("fresh stack")
    for i, op in enumerate(sc["ops"]):
        where = "op %d (%s)" % (i, op)
        if op == "start":
            real(where, top.startTestRun)
            model.start_run()
            model.check(where)
        elif op == "stoprun":
            before = [len(t.stream.getvalue()) for t in stack.texts]
            real(where, top.stopTestRun)
            model.check_texts(where, [t.stream.getvalue()[b:] for t, b in zip(stack.texts, before)])
            model.check(where)
        elif op == "stop":
            real(where, top.stop)
            model.stopped = True
            model.check(where, True)
        elif len(op) == 1 and op.upper() in OUT:
            test = Sample("test_it") if i % 2 else testtools.PlaceHolder("t%d" % i)
            kind, det = op.upper(), op.islower()
            real(where + " startTest", top.startTest, test)
            model.n += 1
            model.check(where + " after startTest")
            tb = {"traceback": text_content("boom")}
            if kind == "S":
                call = (top.addSuccess, (test,), {"details": {}} if det else {})
            elif kind == "K":
                call = ((top.addSkip, (test,), {"details": {"reason": text_content("why")}}) if det
                        else (top.addSkip, (test, "why"), {}))
            elif kind == "U":
                call = (top.addUnexpectedSuccess, (test,), {"details": tb} if det else {})
            else:
                method = getattr(top, {"E": "addError", "F": "addFailure", "X": "addExpectedFailure"}[kind])
                call = (method, (test,), {"details": tb}) if det else (method, (test, exc_info(kind)), {})
            real(where + " outcome", call[0], *call[1], **call[2])
            if kind in LABEL:
                model.problem(kind, test.id())
            model.check(where + " after the outcome")
            real(where + " stopTest", top.stopTest, test)
            model.check(where + " after stopTest")
        else:
            raise HarnessError("unknown op %r" % (op,))


BODIES = {"S": "pass", "F": "self.fail('boom')", "E": "raise RuntimeError('boom')", "K": "self.skipTest('why')",
          "X": "self.expectFailure('known', self.assertEqual, 1, 2)",
          "U": "self.expectFailure('known', self.assertEqual, 1, 1)"}


def module_source(tests, flavour, stop_at=None):
    lines = ["import unittest, testtools", "EXECUTED = []", "HOOK = None",
             "class T(%s.TestCase):" % flavour, "    maxDiff = None"]
    for i, o in enumerate(tests):
        if o not in OUT:
            raise HarnessError("unknown outcome %r" % (o,))
        body = BODIES[o]
        if flavour == "unittest" and o in "XU":
            lines.append("    @unittest.expectedFailure")
            body = "self.assertEqual(1, 2)" if o == "X" else "pass"
        lines += ["    def test_%02d(self):" % i, "        EXECUTED.append(%d)" % i]
        lines += ["        HOOK()"] if i == stop_at else []
        lines.append("        " + body)
    return "\n".join(lines) + "\n"


def load_module(name, source):
    mod = types.ModuleType(name)
    exec(compile(source, name + ".py", "exec"), mod.__dict__)
    sys.modules[name] = mod
    return mod


def expected_prefix(tests, failfast, stop_at=None):
    for i, o in enumerate(tests):
        if (failfast and o in LABEL) or i == stop_at:
            return i + 1, True
    return len(tests), False


class Partition(unittest.TestSuite):
    __hash__ = object.__hash__  # ConcurrentTestSuite keys its threads by the partitions it is given


def run_suite(sc):
    import testtools
    tests, flavour = sc["tests"], sc["flavour"]
    if flavour not in ("testtools", "unittest") or sc["suite"] not in ("unittest", "concurrent"):
        raise HarnessError("bad suite scenario")
    stack = real("building the stack", Stack, sc["stack"], sc["failfast"])
    model, top = Model(sc, stack), stack.top
    mod = load_module("c04_suite_mod", module_source(tests, flavour, sc.get("stop_at")))
    try:
        mod.HOOK = top.stop
        suite = Partition([mod.T("test_%02d" % i) for i in range(len(tests))])
        if sc["suite"] == "concurrent":
            inner, suite = suite, testtools.ConcurrentTestSuite(suite, lambda _s: [inner])
        if sc["boundaries"]:
            real("startTestRun", top.startTestRun)
        real("suite.run", suite.run, top)
        count, model.stopped = expected_prefix(tests, model.ff, sc.get("stop_at"))
        if mod.EXECUTED != list(range(count)):
            raise Violation("tests executed by the suite: %r (outcomes %r, failfast %s, stop() in test %r)"
                            % (mod.EXECUTED, tests, sc["failfast"], sc.get("stop_at")),
                            "the suite runs exactly tests %r: it stops dispatching once shouldStop is set "
                            "and not earlier" % list(range(count)))
        model.n = count
        model.problems = [(LABEL[o], "c04_suite_mod.T.test_%02d" % i)
                          for i, o in enumerate(tests[:count]) if o in LABEL]
        explicit = sc.get("stop_at") is not None and sc["stop_at"] < count
        model.check("after suite.run", explicit)
        if sc["boundaries"]:
            before = [len(t.stream.getvalue()) for t in stack.texts]
            real("stopTestRun", top.stopTestRun)
            model.check_texts("stopTestRun", [t.stream.getvalue()[b:] for t, b in zip(stack.texts, before)])
            model.check("after stopTestRun")
    finally:
        sys.modules.pop("c04_suite_mod", None)


def run_program(sc):
    tests, ff = sc["tests"], bool(sc["failfast"])
    source, argv = module_source(tests, sc["flavour"]), ["-f"] if ff else []
    if sc["mode"] == "subprocess":
        with tempfile.TemporaryDirectory() as tmp:
            with open(os.path.join(tmp, "c04_run_mod.py"), "w") as f:
                f.write(source)
            env = dict(os.environ)
            env["PYTHONPATH"] = os.pathsep.join(filter(None, [tmp, env.get("PYTHONPATH")]))
            proc = subprocess.run([sys.executable, "-m", "testtools.run"] + argv + ["c04_run_mod"], env=env,
                                  cwd=tmp, capture_output=True, text=True, timeout=60)
            status, text = proc.returncode, proc.stdout
            if status not in (0, 1):
                text += proc.stderr
    else:
        from testtools import run
        load_module("c04_run_mod", source)
        stream, status = io.StringIO(), None
        try:
            real("testtools.run.main", run.main, ["prog"] + argv + ["c04_run_mod"], stream)
        except SystemExit as e:
            status = 0 if not e.code else e.code if type(e.code) is int else 1
        finally:
            sys.modules.pop("c04_run_mod", None)
        text = stream.getvalue()
    count, _ = expected_prefix(tests, ff)
    problems = [(LABEL[o], "c04_run_mod.T.test_%02d" % i) for i, o in enumerate(tests[:count]) if o in LABEL]
    want = 1 if problems else 0
    if status != want:
        raise Violation("testtools.run exit status %r for outcomes %r (failfast %s); output %r"
                        % (status, tests, ff, text[-400:]),
                        "exit status %d: non-zero exactly when an error, failure or unexpected success "
                        "was reported" % want)
    check_summary(text, count, problems, "testtools.run output")


RUNNERS = {"history": run_history, "suite": run_suite, "run": run_program}


def run_scenario(sc):
    """None when the property holds on this scenario, else (observed, required)."""
    if not isinstance(sc, dict) or sc.get("kind") not in RUNNERS:
        raise HarnessError("bad scenario %r" % (sc,))
    if sc["kind"] != "run":
        validate(sc["stack"])
        if sc["failfast"] not in MODES or not applicable(sc):
            raise HarnessError("scenario is outside the quantifier (see applicable())")
    try:
        with warnings.catch_warnings():
            warnings.simplefilter("ignore")
            RUNNERS[sc["kind"]](sc)
    except Violation as v:
        return v.observed, v.required
    return None


# ---------------------------------------------------------------- enumeration

def wrap(name, spec, salt=0):
    if name != "Multi":
        return [name, spec]
    return [["Multi", spec], ["Multi", spec, "TR"], ["Multi", "py26", spec], ["Multi", "ext", spec, "Text"]][salt % 4]


def modes_for(spec):
    return [m for m in MODES if m != "top" or (plumbed(spec) and not isinstance(spec, str))]


def variant(ops, salt):
    """Alternate the exc_info / details form of the outcomes deterministically."""
    return [o.lower() if len(o) == 1 and (salt + i) % 2 else o for i, o in enumerate(ops)]


def small_histories():
    seqs = [()] + [(a,) for a in OUT] + [(a, b) for a in OUT for b in OUT]
    ones = [s for s in seqs if len(s) < 2]
    hs = [list(s) for s in seqs] + [["start", *s, "stoprun"] for s in seqs]
    hs += [[*a, "start", *b, "stoprun"] for a in ones for b in ones if a]
    hs += [["start", *a, "stoprun", "start", *b, "stoprun"] for a in ones for b in ones]
    hs += [["start", a, "stop", b, "stoprun"] for a in "SEU" for b in "SFX"]
    return hs + [["stop"], ["stop", "S"], ["start", "stop", "stoprun", "start", "S", "stoprun"]]


DEEP_HISTORIES = [["start", "E", "S", "stoprun"], ["start", "S", "U", "K", "stoprun"], ["F", "start", "X", "stoprun"],
                  ["start", "F", "stoprun", "start", "S", "stoprun"], ["S", "stop", "S"], ["start", "K", "X", "S", "stoprun"],
                  ["start", "S", "stop", "E", "stoprun", "start", "U"], ["U", "S"], ["start", "S", "S", "F", "E", "stoprun"]]


def gen_shallow():
    stacks = list(LEAVES) + [wrap(w, leaf, s) for w in WRAPPERS for leaf in LEAVES for s in (range(3) if w == "Multi" else (0,))]
    salt = 0
    for ops in small_histories():
        for spec in stacks:
            for mode in modes_for(spec):
                if mode != "off" and not any(o.upper() in LABEL for o in ops) and "stop" not in ops and salt % 4:
                    salt += 1
                    continue  # failfast cannot matter here: keep one in four
                salt += 1
                yield {"kind": "history", "stack": spec, "failfast": mode, "ops": variant(ops, salt)}


def gen_deep():
    salt = 0
    for depth in (2, 3):
        for chain in itertools.product(WRAPPERS, repeat=depth):
            for leaf in LEAVES:
                spec = leaf
                for j, w in enumerate(reversed(chain)):
                    spec = wrap(w, spec, salt + j)
                modes = modes_for(spec)
                for k, ops in enumerate(DEEP_HISTORIES):
                    salt += 1
                    yield {"kind": "history", "stack": spec, "failfast": modes[(salt + k) % len(modes)],
                           "ops": variant(ops, salt)}


SUITE_STACKS = ["TR", "Text", "ETSD", ["Multi", "Text", "py26"], ["TFR", "TR"], ["Tagger", ["ETOD", "Text"]],
                ["ETOD", "twisted"], ["TRD", ["Multi", "TBT", "ext"]], ["Multi", ["TFR", "Text"], "ETSD"],
                ["ETOD", ["Multi", "py27", "TR"]]]


def gen_suites():
    outcomes = [list(s) for n in (0, 1, 2, 3) for s in itertools.product("SEFKXU" if n < 3 else "SFU", repeat=n)]
    salt = 0
    for tests in outcomes:
        for spec in SUITE_STACKS:
            salt += 1
            modes = modes_for(spec)
            stop_at = [None, None, 0, len(tests) - 2][salt % 4] if len(tests) > 1 else None
            yield {"kind": "suite", "stack": spec, "failfast": modes[salt % len(modes)], "tests": tests,
                   "flavour": ("testtools", "unittest")[salt % 2], "suite": ("unittest", "concurrent")[salt // 2 % 2],
                   "stop_at": stop_at, "boundaries": salt % 3 != 0}


def gen_runs():
    seqs = [list(s) for n in (0, 1, 2, 3) for s in itertools.product("SEFKXU" if n < 3 else "SEU", repeat=n)]
    for k, tests in enumerate(seqs):
        for ff in (False, True):
            yield {"kind": "run", "tests": tests, "failfast": ff, "flavour": ("testtools", "unittest")[(k + ff) % 2],
                   "mode": "inproc"}
    for tests in (["S"], ["F"], ["E"], ["U"], ["K", "X"], ["S", "U", "S"], []):
        yield {"kind": "run", "tests": tests, "failfast": len(tests) == 3, "flavour": "testtools", "mode": "subprocess"}


def roundrobin(*gens):
    gens = list(gens)
    while gens:
        for g in list(gens):
            try:
                yield next(g)
            except StopIteration:
                gens.remove(g)


def random_scenario(rng):
    def stack(depth):
        if depth == 0 or rng.random() < 0.25:
            return rng.choice(LEAVES)
        w = rng.choice(WRAPPERS)
        return [w] + [stack(depth - 1) for _ in range(rng.randint(1, 3) if w == "Multi" else 1)]
    roll = rng.random()
    if roll < 0.1:
        return {"kind": "run", "tests": [rng.choice(OUT) for _ in range(rng.randint(0, 7))], "mode": "inproc",
                "failfast": rng.random() < 0.5, "flavour": rng.choice(("testtools", "unittest"))}
    spec = stack(3)
    mode = rng.choice(modes_for(spec))
    if roll < 0.3:
        tests = [rng.choice("SSKX" + OUT) for _ in range(rng.randint(0, 6))]
        return {"kind": "suite", "stack": spec, "failfast": mode, "tests": tests, "boundaries": rng.random() < 0.7,
                "flavour": rng.choice(("testtools", "unittest")), "suite": rng.choice(("unittest", "concurrent")),
                "stop_at": rng.randrange(len(tests)) if tests and rng.random() < 0.3 else None}
    ops, started = [], False
    for _ in range(rng.randint(1, 3)):
        if started or rng.random() < 0.8:
            ops.append("start")
            started = True
        for _ in range(rng.randint(0, 5)):
            ops.append("stop" if rng.random() < 0.08 else rng.choice("SSKX" + OUT + OUT.lower()))
        if started and rng.random() < 0.85:
            ops.append("stoprun")
    return {"kind": "history", "stack": spec, "failfast": mode, "ops": ops}


HINT_WORDS = {"MultiTestResult": '"Multi"', "ThreadsafeForwardingResult": '"TFR"', "ExtendedToOriginalDecorator": '"ETOD"',
              "ExtendedToStreamDecorator": '"ETSD"', "StreamFailFast": '"ETSD"', "StreamSummary": '"ETSD"',
              "TestControl": '"ETSD"', "TextTestResult": '"Text"', "TestResultDecorator": '"TRD"', "Tagger": '"Tagger"',
              "TestByTestResult": '"TBT"', "TestResult": '"TR"', "TestToolsTestRunner": '"run"', "TestProgram": '"run"',
              "ConcurrentTestSuite": '"concurrent"', "stop": '"stop', "stopTestRun": '"stoprun"', "startTestRun": '"start"'}


def hint_words(obligation_json):
    try:
        if os.path.isfile(obligation_json):
            obligation_json = open(obligation_json).read()
        target = str(json.loads(obligation_json).get("target", ""))
    except Exception:
        return []
    module, _, qual = target.partition(":")
    words = [HINT_WORDS[p] for p in qual.split(".") if p in HINT_WORDS]
    return words + (['"run"'] if module.endswith(".run") else [])


def report(sc, finding):
    print(json.dumps({"scenario": sc, "observed": finding[0], "required": finding[1]}))
    return 1


def drive(args):
    if args.scenario is not None:
        try:
            sc = json.loads(args.scenario)
        except ValueError as e:
            raise HarnessError("unreadable --scenario: %s" % e)
        finding = run_scenario(sc)
        return report(sc, finding) if finding else 0
    deadline = time.monotonic() + args.budget
    exhaustive = [sc for sc in roundrobin(gen_shallow(), gen_deep(), gen_suites(), gen_runs())
                  if sc["kind"] == "run" or applicable(sc)]
    words = hint_words(args.from_obligation) if args.from_obligation else []
    if words:
        exhaustive.sort(key=lambda sc: -sum(w in json.dumps(sc) for w in words))
    rng = random.Random(int(os.environ.get("VERIF_SEED", "0") or 0))
    count = 0
    for sc in itertools.chain(exhaustive, (random_scenario(rng) for _ in itertools.count())):
        if time.monotonic() >= deadline:
            break
        if count == len(exhaustive):
            print("C04: exhaustive part done after %.1fs" % (time.monotonic() - deadline + args.budget))
        if sc["kind"] != "run" and not applicable(sc):
            continue
        finding = run_scenario(sc)
        count += 1
        if finding:
            print("C04: violation after %d scenarios" % count)
            return report(sc, finding)
    print("C04: %d scenarios (%d exhaustive listed), no violation" % (count, len(exhaustive)))
    return 0


def main():
    parser = argparse.ArgumentParser(description=__doc__.splitlines()[0])
    parser.add_argument("--budget", type=float, default=60.0)
    parser.add_argument("--from-obligation", default=None)
    parser.add_argument("--scenario", default=None)
    try:
        args = parser.parse_args()
        signal.signal(signal.SIGALRM, lambda *_: (print("C04: harness watchdog expired"), os._exit(2)))
        signal.alarm(int(args.budget) + 120)
        code = drive(args)
    except SystemExit:
        sys.stdout.flush()
        os._exit(2)
    except BaseException:
        traceback.print_exc()
        sys.stdout.flush()
        os._exit(2)
    sys.stdout.flush()
    os._exit(code)  # never wait for a worker thread the code under test may have left behind


if __name__ == "__main__":
    main()
