#!/usr/bin/env python
"""C16 replay / counterexample search: Content is lossless and independent of chunking.

Oracle (from the property statement; only return values, exceptions, public attributes, the
event log of testresult.doubles and the read() log of an instrumented stream are looked at):
  text     text_content(t): joined iter_bytes() == t.encode('utf8'); as_text() == t == joined
           iter_text(); equal to a byte-per-chunk Content of the same type, unequal to a longer one.
  json     json.loads(joined bytes of json_content(d)) is type-strictly equal to d.
  decode   Content(text/plain[; charset=cs], chunks): joined iter_bytes() == concatenation; as_text()
           and joined iter_text() == whole.decode(cs or ISO-8859-1) for every cutting; if the whole
           string is undecodable they raise UnicodeDecodeError as well.
  stream   content_from_stream/_file(chunk_size, seek_offset, seek_whence, buffer_now): chunks are
           non-empty, <= chunk_size (DEFAULT_CHUNK_SIZE if omitted) and join to data[seek position:];
           lazy => no read() at construction and a later change of the source is seen; buffer_now
           => no read() after construction and later changes (even deleting the file) are not seen.
  eq       (A == B) iff type, subtype, parameters and joined bytes agree; (A != B) is the negation.
  ctype    a detail sent through the public ExtendedToStreamDecorator -> StreamToDict path (type
           rendered to a MIME string and parsed back) keeps type/subtype/parameters and bytes.
  snapshot copies made by gather_details (directly or via TestCase.useFixture) keep type and bytes
           after the source list / stream / file is appended to, emptied or rewritten.
Enumeration: small exhaustive sets first (texts of <= 2 symbols over {a, NUL, e-acute, euro, astral,
combining mark, BOM} in utf8/utf-16/utf-7/utf-32 with every cut set of short encodings plus empty
chunks; all latin-1 strings <= 3 bytes over 4 byte values; invalid UTF-8; sources of 0..6 bytes x 6
chunk sizes x every seek offset (3 origins) x buffer_now x file/stream x pre-positioned / short-
reading streams; all pairs of 32 small contents; a grid of content types; 168 snapshot cases:
about 14000 scenarios, ~1 s), then seeded random larger ones (VERIF_SEED) until the budget ends.
Exit 0 = nothing found, 1 = violation (last stdout line is the JSON report), 2 = harness error.
"""
import argparse
import itertools
import json
import os
import random
import shutil
import signal
import sys
import tempfile
import time

import fixtures
import testtools
from testtools import content as C
from testtools.content import Content
from testtools.content_type import ContentType
from testtools.testcase import gather_details
from testtools.testresult import doubles

KINDS = ["text", "json", "decode", "stream", "eq", "ctype", "snapshot"]
TMP = []  # [scratch directory, counter], created on first use


class Violation(Exception):
    pass


class Timeout(BaseException):
    pass


def fail(observed, required):
    raise Violation(observed, required)


def lib(what, f, *a, **kw):
    """Call the code under test; an exception it raises is an observation, not a harness error."""
    try:
        return f(*a, **kw)
    except Violation:
        raise
    except Exception as e:
        fail("%s raised %r" % (what, e), "%s succeeds" % what)


def drain(what, factory, limit):
    def go():
        out = []
        for x in factory():
            out.append(x)
            if len(out) > limit + 50:  # only there to stop runaway iteration
                fail("%s yielded more than %d chunks" % (what, limit + 50), "finitely many chunks")
        return out
    return lib(what, go)


def joined(what, content, limit):
    chunks = drain(what, content.iter_bytes, limit)
    if not all(isinstance(c, bytes) for c in chunks):
        fail("%s yielded %r" % (what, chunks), "byte strings")
    return b"".join(chunks)


def split(data, cuts):
    """cuts None: zero chunks; else sorted cut positions in 0..len (repeats give empty chunks)."""
    if cuts is None:
        assert not data
        return []
    edges = [0] + list(cuts) + [len(data)]
    assert edges == sorted(edges)
    return [data[a:b] for a, b in zip(edges, edges[1:])]


def mk_ct(spec):
    return ContentType(spec[0], spec[1], dict(spec[2]) if spec[2] else None)


def mk_content(spec):
    chunks = split(bytes.fromhex(spec["hex"]), spec["cuts"])
    return Content(mk_ct(spec["ct"]), lambda: list(chunks))


def ct_show(ct):
    return "type=%r subtype=%r parameters=%r" % (ct.type, ct.subtype, ct.parameters)


def ct_same(ct, spec):
    return (ct.type, ct.subtype, dict(ct.parameters)) == (spec[0], spec[1], dict(spec[2] or {}))


def new_file(data):
    if not TMP:
        TMP.extend([tempfile.mkdtemp(prefix="c16_"), 0])
    TMP[1] += 1
    path = os.path.join(TMP[0], "f%d" % TMP[1])
    write_file(path, data)
    return path


def write_file(path, data):
    with open(path, "wb") as f:
        f.write(data)


class Stream:
    """Instrumented source: counts read() calls, optional short reads, contents can be swapped."""

    def __init__(self, data, pos=0, max_read=None):
        self.data, self.pos, self.reads, self.max_read = data, pos, 0, max_read
        self.limit = 20 * len(data) + 200

    def read(self, size=-1):
        self.reads += 1
        if self.reads > self.limit:
            fail("more than %d read() calls on the stream" % self.limit, "reading stops at end of file")
        if size is None or size < 0:
            size = len(self.data)
        chunk = self.data[self.pos:self.pos + (min(size, self.max_read) if self.max_read else size)]
        self.pos += len(chunk)
        return chunk

    def seek(self, offset, whence=0):
        pos = offset + (0, self.pos, len(self.data))[whence]
        if pos < 0:
            raise ValueError("negative seek position %d" % pos)
        self.pos = pos
        return pos

    def tell(self):
        return self.pos


# ------------------------------------------------------------------------ scenario runners
def run_text(s):
    t = s["text"]
    raw = t.encode("utf8")
    c = lib("text_content", C.text_content, t)
    for n in (1, 2):
        got = joined("iter_bytes (pass %d)" % n, c, 2)
        if got != raw:
            fail("iter_bytes pass %d joined to %r" % (n, got), "the UTF-8 encoding %r of the text" % raw)
    for what, got in (("as_text()", lib("as_text", c.as_text)),
                      ("joined iter_text()", "".join(drain("iter_text", c.iter_text, 2)))):
        if got != t:
            fail("%s returned %r" % (what, got), "the original text %r" % t)
    peer = Content(c.content_type, lambda: [raw[i:i + 1] for i in range(len(raw))])
    longer = Content(c.content_type, lambda: [raw, b"x"])
    obs = lib("==", lambda: (c == peer, peer == c, c == longer, c != peer))
    if obs != (True, True, False, False):
        fail("(c==bytewise, bytewise==c, c==longer, c!=bytewise) = %r" % (obs,),
             "(True, True, False, False): equality is type and bytes, never chunking")


def strict_eq(a, b):
    if type(a) is not type(b):
        return False
    if isinstance(a, list):
        return len(a) == len(b) and all(strict_eq(x, y) for x, y in zip(a, b))
    if isinstance(a, dict):
        return set(a) == set(b) and all(strict_eq(a[k], b[k]) for k in a)
    return a == b


def run_json(s):
    data = s["data"]
    raw = joined("iter_bytes", lib("json_content", C.json_content, data), 100)
    try:
        back = json.loads(raw.decode("utf8"))
    except ValueError as e:
        fail("bytes %r are not UTF-8 JSON (%r)" % (raw, e), "JSON for %r" % (data,))
    if not strict_eq(back, data):
        fail("bytes %r decode to %r" % (raw, back), "round trip to %r" % (data,))


def run_decode(s):
    data, cs = bytes.fromhex(s["hex"]), s["charset"]
    chunks = split(data, s["cuts"])
    c = Content(ContentType("text", "plain", {"charset": cs} if cs else None), lambda: list(chunks))
    got = joined("iter_bytes", c, len(chunks))
    if got != data:
        fail("iter_bytes joined to %r" % got, "concatenation of the source chunks %r" % data)

    def outcome(f):
        try:
            return "returns %r" % (f(),)
        except UnicodeDecodeError:
            return "raises UnicodeDecodeError"
        except Exception as e:
            return "raises %r" % (e,)
    want = outcome(lambda: data.decode(cs or "ISO-8859-1"))
    for what, f in (("as_text()", c.as_text), ("joined iter_text()", lambda: "".join(c.iter_text()))):
        got = outcome(f)
        if got != want:
            fail("%s with chunks %r %s" % (what, chunks, got),
                 "it %s, as decoding the whole byte string in %s does" % (want, cs or "ISO-8859-1"))
    # two contents of the same type decoded at overlapping times (their iter_text() generators advanced alternately):
    # each must still decode its own bytes
    c2 = Content(ContentType("text", "plain", {"charset": cs} if cs else None), lambda: list(chunks))

    def interleaved():
        a, b = c.iter_text(), c2.iter_text()
        out_a, out_b = [], []
        for x, y in itertools.zip_longest(a, b):
            if x is not None:
                out_a.append(x)
            if y is not None:
                out_b.append(y)
        return "".join(out_a), "".join(out_b)
    got = outcome(interleaved)
    if want.startswith("returns"):
        text = data.decode(cs or "ISO-8859-1")
        if got != "returns %r" % ((text, text),):
            fail("two contents with chunks %r decoded alternately: %s" % (chunks, got),
                 "each of them decodes to %r" % (text,))


def run_stream(s):
    data, via, size, off, now = bytes.fromhex(s["hex"]), s["via"], s["chunk_size"], s["seek_offset"], s["buffer_now"]
    # "late": the source is changed after construction; a lazy content must see the final bytes
    # (data), a buffered one the bytes present at construction (data again, garbage comes later).
    garbage = b"\xee" * len(data) + b"\xdd"
    before, after = (data, data) if not s["late"] else (data, garbage) if now else (garbage, data)
    pos0 = min(s.get("pre_read") or 0, len(data)) if via == "stream" else 0
    kw = {"buffer_now": now}
    if size is not None:
        kw["chunk_size"] = size
    if off is not None:
        kw.update(seek_offset=off, seek_whence=s["seek_whence"])
    if via == "stream":
        st = Stream(before, pos0, s.get("max_read"))
        c = lib("content_from_stream", C.content_from_stream, st, **kw)
        built_reads = st.reads
        if not now and built_reads:
            fail("%d read() calls during content_from_stream(buffer_now=False)" % built_reads,
                 "no read before iter_bytes() is consumed")
        st.data = after
    else:
        path = new_file(before)
        c = lib("content_from_file", C.content_from_file, path, **kw)
        if s["late"] and now:
            os.remove(path)
        else:
            write_file(path, after)
    start = pos0 if off is None else off + (0, pos0, len(data))[s["seek_whence"]]
    assert start >= 0, "scenario outside the quantifier"
    want = data[start:]
    limit = size if size is not None else C.DEFAULT_CHUNK_SIZE
    for n in ((1, 2) if (now or via == "file") else (1,)):
        chunks = drain("iter_bytes", c.iter_bytes, len(want))
        desc = "pass %d chunks %r" % (n, chunks if len(want) < 64 else [len(x) for x in chunks])
        if b"".join(chunks) != want:
            fail(desc, "chunks joining to exactly the %d bytes from position %d to EOF: %r%s"
                 % (len(want), start, want[:64], "..." if len(want) > 64 else ""))
        if any(len(x) == 0 or len(x) > limit for x in chunks):
            fail(desc, "every chunk non-empty and at most chunk_size=%d bytes" % limit)
    if via == "stream" and now and st.reads != built_reads:
        fail("%d read() calls after construction with buffer_now=True" % (st.reads - built_reads),
             "the stream is read at construction and never again")
    if via == "file" and os.path.exists(path):
        os.remove(path)


def run_eq(s):
    a, b = s["a"], s["b"]
    want = a["ct"][:2] == b["ct"][:2] and (a["ct"][2] or {}) == (b["ct"][2] or {}) and a["hex"] == b["hex"]
    ca, cb = mk_content(a), mk_content(b)
    obs = lib("Content.__eq__/__ne__", lambda: (ca == cb, cb == ca, ca != cb))
    if obs != (want, want, not want):
        fail("(a==b, b==a, a!=b) = %r" % (obs,),
             "%r: equal iff same content type and same joined bytes" % ((want, want, not want),))


def run_ctype(s):
    data, c, got, test = bytes.fromhex(s["hex"]), mk_content(s), [], testtools.PlaceHolder("t")

    def push():
        r = testtools.ExtendedToStreamDecorator(testtools.StreamToDict(got.append))
        r.startTestRun()
        r.startTest(test)
        r.addSuccess(test, details={"d": c})
        r.stopTest(test)
        r.stopTestRun()
    lib("ExtendedToStreamDecorator -> StreamToDict", push)
    if len(got) != 1 or "d" not in got[0]["details"]:
        fail("received test dicts %r" % (got,), "one test dict with detail 'd'")
    back = got[0]["details"]["d"]
    if not ct_same(back.content_type, s["ct"]):
        fail("rendered as %r, re-parsed as %s" % (repr(c.content_type), ct_show(back.content_type)),
             "type=%r subtype=%r parameters=%r" % (s["ct"][0], s["ct"][1], s["ct"][2] or {}))
    raw = joined("iter_bytes of the re-parsed detail", back, len(data))
    if raw != data:
        fail("detail bytes after the round trip %r" % raw, "the original bytes %r" % data)


def run_snapshot(s):
    data, ct, src, mut = bytes.fromhex(s["hex"]), mk_ct(s["ct"]), s["source"], s["mutation"]
    new = {"append": data + b"!", "clear": b"", "rewrite": data[::-1] + b"#"}[mut]
    if src in ("list", "iter"):
        live = split(data, s["cuts"])
        c = Content(ct, (lambda: live) if src == "list" else (lambda: iter(live)))
    elif src == "stream":
        st = Stream(data)
        c = lib("content_from_stream", C.content_from_stream, st, ct, chunk_size=s["chunk_size"], seek_offset=0)
    else:
        path = new_file(data)
        c = lib("content_from_file", C.content_from_file, path, ct, chunk_size=s["chunk_size"])
    if s["via"] == "gather":
        target = {}
        lib("gather_details", gather_details, {"d": c}, target)
        if list(target) != ["d"]:
            fail("target keys %r" % list(target), "the detail gathered under its name 'd'")
        snap = target["d"]
    else:
        class Fx(fixtures.Fixture):
            def _setUp(self):
                self.addDetail("d", c)

        class T(testtools.TestCase):
            def test(self):
                self.useFixture(Fx())
        log = doubles.ExtendedTestResult()
        lib("TestCase.run", T("test").run, log)
        ok = [e for e in log._events if e[0] == "addSuccess"]
        if not ok or "d" not in (ok[0][2] or {}):
            fail("events %r" % ([e[0] for e in log._events],), "addSuccess carrying detail 'd'")
        snap = ok[0][2]["d"]
    if src in ("list", "iter"):
        live[:] = {"append": live + [b"!"], "clear": [], "rewrite": [new]}[mut]
    elif src == "stream":
        st.data = new
    elif mut == "clear":
        os.remove(path)
    else:
        write_file(path, new)
    for n in (1, 2):
        got = joined("iter_bytes of the gathered copy (pass %d)" % n, snap, len(data))
        if got != data:
            fail("after the source was changed (%s) the gathered copy reads %r (pass %d)" % (mut, got, n),
                 "the bytes at gathering time %r" % data)
    if not ct_same(snap.content_type, s["ct"]):
        fail("copy has " + ct_show(snap.content_type), "the source's content type %r" % (s["ct"],))
    if src == "file" and os.path.exists(path):
        os.remove(path)


RUN = {"text": run_text, "json": run_json, "decode": run_decode, "stream": run_stream,
       "eq": run_eq, "ctype": run_ctype, "snapshot": run_snapshot}


def _alarm(signum, frame):
    raise Timeout()


def check(s):
    """None if the scenario satisfies the property, else (observed, required)."""
    signal.signal(signal.SIGALRM, _alarm)
    signal.setitimer(signal.ITIMER_REAL, 10)
    try:
        RUN[s["kind"]](s)
    except Violation as v:
        return v.args
    except Timeout:
        return "no result within 10 s", "the operation terminates"
    finally:
        signal.setitimer(signal.ITIMER_REAL, 0)
    return None


# ------------------------------------------------------------------------ enumeration
SYMS = ["a", "\x00", "\xe9", "\u20ac", "\U0001f600", "\u0301", "\ufeff"]
CTS = [["text", "plain", None], ["text", "plain", {"charset": "utf8"}], ["text", "html", None],
       ["application", "plain", {"charset": "utf8", "language": "python"}]]
# parameter values: anything printable except quote characters, comma and backslash
VALUE_CHARS = "abzAZ019 ;=/:@()<>[]?*%+-._!#$&^`|~{}\t\xe9\u65e5\U0001f600"
VALUES = ["utf8", "utf-8", "ISO-8859-1", "a b", " a ", "", "a;b=c", "ABC", "x/y:z", "(c)<d>[e]?*",
          "\xe9\u65e5", "\U0001f600", "v" * 90]
NAMES = ["k", "charset", "a1", "x-y", "a_b.c"]


def cut_sets(n, full=6):
    yield []
    if n == 0:
        for cuts in (None, [0], [0, 0]):
            yield cuts
        return
    if n <= full:
        for r in range(1, n):
            for cs in itertools.combinations(range(1, n), r):
                yield list(cs)
    else:
        for i in range(1, n):
            yield [i]
        yield list(range(1, n))
    for cuts in ([0], [n], [n // 2, n // 2], [0, 0] + list(range(1, n)) + [n, n]):
        yield cuts


def small_text():
    for r in (0, 1, 2):
        for t in itertools.product(SYMS, repeat=r):
            yield {"kind": "text", "text": "".join(t)}
    yield {"kind": "text", "text": "e\u0301\U0001f600\x00\u20ac\xe9a\ufeff" * 3}


def small_json():
    for d in [None, True, False, 0, 1, -1, 1.5, 1e100, 2 ** 70, "", "a", "\x00", "\xe9\u20ac", "\U0001f600e\u0301",
              '"\\/\n', [], {}, [None], [1, [2, [3]]], {"": ""}, [True, 1, 1.0, "1"], {"a": {"b": {"c": []}}},
              {"k": [1, {"\xe9": None, "\U0001f600": [True, 0.25]}]}]:
        yield {"kind": "json", "data": d}


def small_decode():
    def sc(data, cuts, cs):
        return {"kind": "decode", "hex": data.hex(), "cuts": cuts, "charset": cs}
    for r in (0, 1, 2):
        for t in itertools.product(SYMS, repeat=r):
            for cs in ("utf8", "utf-16", "utf-7", "utf-32-le"):
                data = "".join(t).encode(cs)
                for cuts in cut_sets(len(data)):
                    yield sc(data, cuts, cs)
    for r in (0, 1, 2, 3):
        for bs in itertools.product(b"\x00a\xe9\xff", repeat=r):
            for cuts in cut_sets(r):
                yield sc(bytes(bs), cuts, None)
    for data, cs in [(b"\xe2\x82", "utf8"), (b"\xff", "utf8"), (b"a\xf0\x9f\x98", "utf8"), (b"\x80a", "utf8"),
                     (b"a\xe2\x82b", "utf8"), (b"a\xe9", "ascii"), (b"\xe9\xff", "iso-8859-1"), (b"\x82\xa0a", "shift_jis")]:
        for cuts in cut_sets(len(data)):
            yield sc(data, cuts, cs)


def stream_sc(data, via, size, off, whence, now, late, pre=0, max_read=None):
    s = {"kind": "stream", "hex": data.hex(), "via": via, "chunk_size": size, "seek_offset": off,
         "seek_whence": whence, "buffer_now": now, "late": late}
    if via == "stream":
        s.update(pre_read=pre, max_read=max_read)
    return s


def seeks(n, pre):
    """No seek, then every offset from start of data to 2 past EOF for origins 0, 2 and 1."""
    return ([(None, 0)] + [(off, 0) for off in range(0, n + 3)] + [(off, 2) for off in range(-n, 3)]
            + [(off, 1) for off in range(-pre, n - pre + 3)])


def small_stream():
    for n in range(0, 7):
        data = bytes(range(0x41, 0x41 + n))
        for size in (1, 2, 3, 4, 7, None):
            for now in (False, True):
                for off, whence in seeks(n, 0):
                    yield stream_sc(data, "file", size, off, whence, now, (off or 0) % 2 == 0)
                for pre, max_read in ((0, None), (min(2, n), None), (0, 1), (min(1, n), 2)):
                    for off, whence in seeks(n, pre):
                        yield stream_sc(data, "stream", size, off, whence, now, (n + (off or 0)) % 2 == 0, pre, max_read)


def small_eq():
    items = [{"ct": ct, "hex": data.hex(), "cuts": cuts} for ct in CTS for data, cuts in
             [(b"", None), (b"", [0]), (b"a", []), (b"ab", []), (b"ab", [1]), (b"ab", [0, 1, 1, 2]), (b"ba", [1]), (b"abc", [2])]]
    for a in items:
        for b in items:
            yield {"kind": "eq", "a": a, "b": b}


def small_ctype():
    # data is never empty here: the stream path drops empty attachments, which is not C16's business
    def sc(ct, data=b"ab", cuts=(1,)):
        return {"kind": "ctype", "ct": ct, "hex": data.hex(), "cuts": list(cuts)}
    for t in ("text", "application", "x-a1"):
        for st in ("plain", "x-traceback", "vnd.a.b+json", "octet-stream"):
            for p in (None, {"charset": "utf8"}, {"charset": "utf8", "language": "python"}, {"b": "2", "a": "1", "c": ""}):
                for data, cuts in ((b"a", ()), (b"ab", (1,)), (b"ab", (0, 2))):
                    yield sc([t, st, p], data, cuts)
    for name in NAMES:
        for v in VALUES:
            yield sc(["text", "plain", {name: v}])
    for ch in VALUE_CHARS:
        yield sc(["text", "x-log", {"k": "a" + ch + "b", "j": ch}])


def small_snapshot():
    for src in ("list", "iter", "stream", "file"):
        chunked = src in ("list", "iter")
        for mut in ("append", "clear", "rewrite"):
            for via in ("gather", "fixture"):
                for data, cuts in ((b"", None), (b"", [0]), (b"abc", []), (b"a\xe2\x82\xacb", [2, 2, 3])):
                    for ct in CTS[1:3]:
                        if chunked or cuts != [0]:
                            yield {"kind": "snapshot", "source": src, "mutation": mut, "via": via, "ct": ct,
                                   "hex": data.hex(), "cuts": cuts if chunked else [], "chunk_size": 2}


SMALL = {"text": small_text, "json": small_json, "decode": small_decode, "stream": small_stream,
         "eq": small_eq, "ctype": small_ctype, "snapshot": small_snapshot}


def r_text(rng, maxlen=40):
    ranges = [(0, 1), (0x300, 0x370), (1, 0x80), (0x80, 0x800), (0x800, 0xD800), (0xE000, 0x10000),
              (0x10000, 0x110000), (0x20, 0x7F)]  # NUL, combining, 1/2/3/3/4-byte UTF-8, printable ASCII
    return "".join(chr(rng.randrange(*rng.choice(ranges))) for _ in range(rng.randrange(maxlen)))


def r_bytes(rng, maxlen):
    return bytes(rng.randrange(256) for _ in range(rng.randrange(maxlen)))


def r_cuts(rng, n):
    if n == 0 and rng.random() < 0.3:
        return None
    return sorted(rng.randrange(n + 1) for _ in range(rng.randrange(0, 8)))


def r_token(rng, rest="abcxyz019-.+"):
    return rng.choice("abcxyz") + "".join(rng.choice(rest) for _ in range(rng.randrange(7)))


def r_ct(rng):
    params = {}
    for _ in range(rng.randrange(4)):
        name = rng.choice(NAMES + [r_token(rng, "abcxyz019-._")])
        params[name] = "".join(rng.choice(VALUE_CHARS) for _ in range(rng.randrange(13)))
    return [rng.choice(["text", "application", r_token(rng)]), r_token(rng), params or None]


def r_json(rng, depth=0):
    k = rng.randrange(9 if depth < 3 else 7)
    if k == 7:
        return [r_json(rng, depth + 1) for _ in range(rng.randrange(4))]
    if k == 8:
        return {r_text(rng, 6): r_json(rng, depth + 1) for _ in range(rng.randrange(4))}
    return [None, True, False, rng.randrange(-10 ** 20, 10 ** 20), rng.uniform(-1e6, 1e6), r_text(rng, 12),
            rng.randrange(-3, 3)][k]


def rand_scenario(kind, rng):
    if kind == "text":
        return {"kind": "text", "text": r_text(rng, 200 if rng.random() < 0.1 else 40)}
    if kind == "json":
        return {"kind": "json", "data": r_json(rng)}
    if kind == "decode":
        cs = rng.choice([None, "utf8", "utf-8", "utf-16", "utf-16-be", "utf-32", "utf-7", "iso-8859-1", "utf8"])
        if cs in (None, "iso-8859-1"):
            data = r_bytes(rng, 24)
        elif rng.random() < 0.15:
            data, cs = r_bytes(rng, 24), "utf8"  # mostly invalid UTF-8: must fail like the whole decode
        else:
            data = r_text(rng, 16).encode(cs)
        return {"kind": "decode", "hex": data.hex(), "cuts": r_cuts(rng, len(data)), "charset": cs}
    if kind == "stream":
        data = r_bytes(rng, 12000 if rng.random() < 0.1 else 40)
        n, via = len(data), rng.choice(["stream", "file"])
        size = rng.choice([None, 1, 2, 3, 5, 8, 16, 4096, max(1, n - 1), max(1, n), n + 1, rng.randrange(1, 50)])
        pre = rng.randrange(n + 1) if via == "stream" and rng.random() < 0.5 else 0
        off, whence = rng.choice([(None, 0), (rng.randrange(n + 3), 0), (rng.randrange(-n, 3), 2),
                                  (rng.randrange(-pre, n - pre + 3), 1)])
        return stream_sc(data, via, size, off, whence, rng.random() < 0.5, rng.random() < 0.5, pre,
                         rng.choice([None, None, 1, 3, 7]))
    if kind == "eq":
        a = {"ct": r_ct(rng), "hex": r_bytes(rng, 6).hex()}
        b = {"ct": a["ct"] if rng.random() < 0.7 else r_ct(rng),
             "hex": a["hex"] if rng.random() < 0.6 else r_bytes(rng, 6).hex()}
        if rng.random() < 0.2 and b["ct"][2]:  # same type minus one parameter
            b["ct"] = [b["ct"][0], b["ct"][1], dict(list(b["ct"][2].items())[1:]) or None]
        for x in (a, b):
            x["cuts"] = r_cuts(rng, len(x["hex"]) // 2)
        return {"kind": "eq", "a": a, "b": b}
    data = r_bytes(rng, 30)
    if kind == "ctype":
        data += b"."  # never empty, see small_ctype
        return {"kind": "ctype", "ct": r_ct(rng), "hex": data.hex(), "cuts": r_cuts(rng, len(data)) or []}
    src = rng.choice(["list", "iter", "stream", "file"])
    return {"kind": "snapshot", "source": src, "mutation": rng.choice(["append", "clear", "rewrite"]),
            "via": "gather" if rng.random() < 0.8 else "fixture", "ct": r_ct(rng), "hex": data.hex(),
            "cuts": r_cuts(rng, len(data)) if src in ("list", "iter") else [], "chunk_size": rng.randrange(1, 9)}


HINTS = [("_iter_chunks", ["stream"]), ("content_from", ["stream", "snapshot"]), ("iter_text", ["decode", "text"]),
         ("as_text", ["decode", "text"]), ("__eq__", ["eq"]), ("_make_content_type", ["ctype"]),
         ("ContentType", ["ctype", "eq"]), ("_copy_content", ["snapshot"]), ("gather_details", ["snapshot"]),
         ("useFixture", ["snapshot"]), ("text_content", ["text"]), ("json_content", ["json"]),
         ("iter_bytes", ["decode", "stream"]), ("_convert", ["ctype"]), ("got_file", ["ctype"])]


def search(budget, hinted, seed):
    """Returns (scenario, (observed, required), count); scenario is None when nothing failed."""
    deadline, count = time.monotonic() + budget, 0
    order = hinted + [k for k in KINDS if k not in hinted]
    gens = [(k, SMALL[k]()) for k in order]
    while gens:  # small exhaustive phase: round robin in batches, hinted kinds first and 5x faster
        for item in list(gens):
            batch = list(itertools.islice(item[1], 1000 if item[0] in hinted else 200))
            if not batch:
                gens.remove(item)
            for s in batch:
                count += 1
                bad = check(s)
                if bad:
                    return s, bad, count
            if time.monotonic() > deadline:
                return None, None, count
    print("small phase done: %d scenarios" % count)
    rng = random.Random(seed)
    while time.monotonic() < deadline:  # random phase: hinted kinds get 3x the share
        for k in [k for k in order for _ in range(3 if k in hinted else 1)]:
            for _ in range(20):
                s = rand_scenario(k, rng)
                count += 1
                bad = check(s)
                if bad:
                    return s, bad, count
    return None, None, count


def report(s, bad):
    print(json.dumps({"scenario": s, "observed": bad[0], "required": bad[1]}))
    return 1


def main(argv):
    ap = argparse.ArgumentParser()
    ap.add_argument("--budget", type=float, default=60.0)
    ap.add_argument("--from-obligation")
    ap.add_argument("--scenario")
    args = ap.parse_args(argv)
    print("C16 on testtools from %s" % os.path.dirname(testtools.__file__))
    if args.scenario:
        s = json.loads(args.scenario)
        bad = check(s)
        return report(s, bad) if bad else 0
    hinted = []
    if args.from_obligation:
        try:
            target = str(json.loads(args.from_obligation).get("target", ""))
        except (ValueError, AttributeError):
            target = ""
        for needle, kinds in HINTS:
            if needle in target:
                hinted += [k for k in kinds if k not in hinted]
    t0 = time.monotonic()
    s, bad, count = search(args.budget, hinted, int(os.environ.get("VERIF_SEED", "0")))
    print("%d scenarios in %.1f s (prioritised: %s)" % (count, time.monotonic() - t0, hinted or "none"))
    return report(s, bad) if bad else 0


if __name__ == "__main__":
    try:
        code = main(sys.argv[1:])
    except SystemExit as e:
        code = 2 if e.code else 0  # argparse usage errors
    except BaseException:
        import traceback
        traceback.print_exc()
        code = 2
    finally:
        if TMP:
            shutil.rmtree(TMP[0], ignore_errors=True)
    sys.stdout.flush()
    sys.exit(code)
