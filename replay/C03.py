#!/venv/bin/python
"""Replay / counterexample search for C03: the reported outcome is sound.

A scenario is a small test program: a behaviour for setUp, the test method,
tearDown and 0..n cleanups (registered in setUp, run LIFO), plus an optional list
of user handlers inserted into ``case.exception_handlers``.  A behaviour is a
"+"-joined action string, e.g. "ok", "fail", "mismatch+skip", "force+ok",
"multi:fail,skip" (optional ``mismatch`` = a failing expectThat, ``force`` =
force_failure set by hand, then return or raise one exception kind).  The stage
bodies log what they really raised, so the oracle only speaks about stages
that ran.  Each scenario is run twice on fresh instances: once against the
ExtendedTestResult double (which add* methods were called) and once against a
testtools.TestResult (wasSuccessful()).

ORACLE (from the property statement, never from the implementation)
 1. addSuccess is reported only if no stage raised, no expectThat mismatched
    and force_failure was not set.
 2. If exactly one exception was raised (and nothing forced a failure) the
    result receives exactly the one outcome its type maps to: skip -> addSkip,
    failure -> addFailure, expected failure -> addExpectedFailure, unexpected
    success -> addUnexpectedSuccess, anything else -> addError; subclasses
    map like their base; a user handler that precedes the built-in ones in
    the list and matches by isinstance is the one (and only one) called, the
    first such handler in list order; a user handler appended after the
    built-in catch-all is never reached.  wasSuccessful() agrees.
 3. If any raised exception is a failure or an error (incl. KeyboardInterrupt /
    SystemExit), no skip / expected failure / success is reported, some
    failure / error / unexpected success is, and wasSuccessful() is False.

ENUMERATION: singles (every kind x 5 stages), user-handler configurations,
expectThat/force_failure x kind x stage pairs, the exhaustive 6^5 product of
{ok, fail, error, skip, xfail, uxs} over (setUp, test, tearDown, 2 cleanups),
all ordered pairs of the extended kinds over stage pairs, then seeded-random
larger programs (up to 4 cleanups, random handlers; seed VERIF_SEED).
"""

import argparse
import itertools
import json
import os
import random
import sys
import time
import unittest

import testtools
from testtools import testcase as _tc
from testtools.matchers import Equals
from testtools.runtest import MultipleExceptions
from testtools.testresult.doubles import ExtendedTestResult


class FailSub(AssertionError):
    pass


class SkipSub(testtools.TestCase.skipException):
    pass


class XFailSub(_tc._ExpectedFailure):
    pass


class UxsSub(_tc._UnexpectedSuccess):
    pass


class CustomErr(Exception):
    pass


class CustomErrSub(CustomErr):
    pass


class CustomFail(AssertionError):
    pass


CUSTOM = {"CustomErr": CustomErr, "CustomErrSub": CustomErrSub, "CustomFail": CustomFail,
          "SkipTest": unittest.SkipTest, "SkipSub": SkipSub}

# kind -> category of the exception it raises (what its type "is")
CATEGORY = {
    "fail": "failure", "failsub": "failure", "assertThat": "failure", "customfail": "failure",
    "error": "error", "error2": "error", "custom": "error", "customsub": "error",
    "multi_empty": "error",
    "skip": "skip", "skipraise": "skip", "skipnoarg": "skip", "skipsub": "skip",
    "xfail": "xfail", "xfailsub": "xfail", "uxs": "uxs", "uxssub": "uxs",
    "kbd": "base", "sysexit": "base",
}
OUTCOME = {"skip": "addSkip", "failure": "addFailure", "xfail": "addExpectedFailure",
           "uxs": "addUnexpectedSuccess", "error": "addError", "base": "addError"}
UNSUCCESSFUL = {"addFailure", "addError", "addUnexpectedSuccess"}
BENIGN = {"addSuccess", "addSkip", "addExpectedFailure"}
BASE_KINDS = ["ok", "fail", "error", "skip", "xfail", "uxs"]
MULTIS = ["multi:fail,skip", "multi:skip,fail", "multi:skip,xfail", "multi:error,uxs",
          "multi:xfail,error"]
ALL_KINDS = sorted(CATEGORY) + MULTIS
STAGES = ["setUp", "test", "tearDown", "cleanup0", "cleanup1"]


def do_raise(case, kind):
    """Raise the exception for a (non-multi) kind, through public API where there is one."""
    if kind == "fail":
        case.fail("boom")
    elif kind == "failsub":
        raise FailSub("boom")
    elif kind == "assertThat":
        case.assertThat(1, Equals(2))
    elif kind == "customfail":
        raise CustomFail("boom")
    elif kind == "error":
        raise RuntimeError("boom")
    elif kind == "error2":
        return 1 // 0
    elif kind == "custom":
        raise CustomErr("boom")
    elif kind == "customsub":
        raise CustomErrSub("boom")
    elif kind == "multi_empty":
        raise MultipleExceptions()
    elif kind == "skip":
        case.skipTest("why")
    elif kind == "skipraise":
        raise case.skipException("why")
    elif kind == "skipnoarg":
        raise case.skipException()
    elif kind == "skipsub":
        raise SkipSub("why")
    elif kind == "xfail":
        case.expectFailure("known", case.assertEqual, 1, 0)
    elif kind == "uxs":
        case.expectFailure("known", case.assertEqual, 1, 1)
    elif kind in ("xfailsub", "uxssub"):
        try:
            raise AssertionError("inner")
        except AssertionError:
            raise (XFailSub(sys.exc_info()) if kind == "xfailsub" else UxsSub("known"))
    elif kind == "kbd":
        raise KeyboardInterrupt()
    elif kind == "sysexit":
        raise SystemExit(3)
    else:
        raise ValueError("unknown kind %r" % (kind,))
    raise RuntimeError("harness: kind %r did not raise" % (kind,))


def behave(case, stage, behaviour):
    """Execute one stage behaviour, logging what is really raised."""
    for action in behaviour.split("+"):
        if action == "ok":
            return
        if action == "mismatch":
            case.expectThat(1, Equals(2))
            case.h_forced.append((stage, "mismatch"))
        elif action == "force":
            case.force_failure = True
            case.h_forced.append((stage, "force"))
        elif action.startswith("multi:"):
            infos = []
            for sub in action[len("multi:"):].split(","):
                try:
                    do_raise(case, sub)
                except BaseException as e:
                    infos.append(sys.exc_info())
                    case.h_raised.append((stage, sub, e))
            raise MultipleExceptions(*infos)
        else:
            try:
                do_raise(case, action)
            except BaseException as e:
                case.h_raised.append((stage, action, e))
                raise


def build_case(scn):
    stages = scn["stages"]

    class Case(testtools.TestCase):
        def setUp(self):
            super().setUp()
            for i, b in enumerate(stages.get("cleanups", [])):
                self.addCleanup(behave, self, "cleanup%d" % i, b)
            behave(self, "setUp", stages.get("setUp", "ok"))

        def test(self):
            behave(self, "test", stages.get("test", "ok"))

        def tearDown(self):
            behave(self, "tearDown", stages.get("tearDown", "ok"))
            super().tearDown()

    case = Case("test")
    case.h_raised, case.h_forced, case.h_calls = [], [], []
    for idx, h in enumerate(scn.get("handlers", [])):
        def handler(c, result, err, idx=idx, reports=h["reports"]):
            c.h_calls.append(idx)
            getattr(result, reports)(c, details=c.getDetails())
        entry = (CUSTOM[h["cls"]], handler)
        if h["where"] == "front":
            case.exception_handlers.insert(0, entry)
        else:
            case.exception_handlers.append(entry)
    return case


def run_once(scn, result):
    case = build_case(scn)
    propagated = None
    try:
        case.run(result)
    except BaseException as e:  # KeyboardInterrupt/SystemExit are expected to propagate
        propagated = repr(e)
    return case, propagated


def expected_for(scn, kind, exc):
    """First match, in list order, among [front handlers..., built-ins, appended handlers...]."""
    model = ["BUILTIN"]
    for idx, h in enumerate(scn.get("handlers", [])):
        if h["where"] == "front":
            model.insert(0, idx)
        else:
            model.append(idx)
    for item in model:
        if item == "BUILTIN":
            if CATEGORY[kind] != "base":
                return ("builtin", OUTCOME[CATEGORY[kind]])
        elif isinstance(exc, CUSTOM[scn["handlers"][item]["cls"]]):
            return ("handler", item)
    return ("builtin", "addError")  # nothing matches: reported as an error (and re-raised)


def check(scn):
    """Run the scenario; return None if the property holds, else (observed, required)."""
    log = ExtendedTestResult()
    case, propagated = run_once(scn, log)
    outcomes = [e[0] for e in log._events if e[0].startswith("add")]
    real = testtools.TestResult()
    case2, _ = run_once(scn, real)
    successful = real.wasSuccessful()
    raised = [(s, k) for s, k, _ in case.h_raised]
    observed = {"outcomes": outcomes, "handler_calls": case.h_calls,
                "wasSuccessful": successful, "raised": raised,
                "forced": case.h_forced, "propagated": propagated}
    if raised != [(s, k) for s, k, _ in case2.h_raised]:
        raise RuntimeError("harness: scenario not deterministic: %r" % (scn,))
    exps = [expected_for(scn, k, e) for _, k, e in case.h_raised]
    # 1. success only if nothing raised / mismatched / forced
    if "addSuccess" in outcomes and (raised or case.h_forced):
        return observed, ("addSuccess may be reported only if no stage raised, no expectThat "
                          "mismatched and force_failure is unset")
    # 2. exactly one exception: the outcome its type maps to, user handlers in list order
    if len(raised) == 1 and not case.h_forced:
        where, what = exps[0]
        if where == "handler":
            want_calls, want = [what], scn["handlers"][what]["reports"]
        else:
            want_calls, want = [], what
        if outcomes != [want] or case.h_calls != want_calls:
            return observed, ("single exception %s in %s must give outcomes [%s] with user "
                              "handler calls %r" % (raised[0][1], raised[0][0], want, want_calls))
        if successful != (want in BENIGN):
            return observed, "wasSuccessful() must be %r after a lone %s" % (want in BENIGN, want)
    # 3. a raised failure/error is never masked by what another stage raises
    bad = [raised[i] for i, (where, what) in enumerate(exps)
           if where == "builtin" and what in ("addFailure", "addError")]
    if bad:
        if (set(outcomes) & BENIGN) or not (set(outcomes) & UNSUCCESSFUL) or successful:
            return observed, ("a failure/error was raised (%r): the reported outcome must be "
                              "failure, error or unexpected success, never skip / expected "
                              "failure / success, and wasSuccessful() must be False" % (bad,))
    return None


def scn_of(assign, handlers=()):
    """assign: dict stage-name -> behaviour; cleanups filled with 'ok' up to the highest used."""
    n = max([int(s[7:]) + 1 for s in assign if s.startswith("cleanup")] or [0])
    stages = {"setUp": assign.get("setUp", "ok"), "test": assign.get("test", "ok"),
              "tearDown": assign.get("tearDown", "ok"),
              "cleanups": [assign.get("cleanup%d" % i, "ok") for i in range(n)]}
    return {"stages": stages, "handlers": list(handlers)}


HANDLER_CONFIGS = [
    [{"cls": "CustomErr", "where": "front", "reports": "addFailure"}],
    [{"cls": "CustomErr", "where": "end", "reports": "addFailure"}],
    [{"cls": "CustomFail", "where": "front", "reports": "addError"}],
    [{"cls": "CustomFail", "where": "end", "reports": "addError"}],
    [{"cls": "CustomErr", "where": "front", "reports": "addFailure"},
     {"cls": "CustomErrSub", "where": "front", "reports": "addError"}],
    [{"cls": "CustomErrSub", "where": "front", "reports": "addError"},
     {"cls": "CustomErr", "where": "front", "reports": "addFailure"}],
    [{"cls": "CustomErrSub", "where": "front", "reports": "addFailure"},
     {"cls": "CustomFail", "where": "front", "reports": "addError"},
     {"cls": "CustomErr", "where": "end", "reports": "addFailure"}],
]


def phase_singles():
    for kind in sorted(CATEGORY):
        for st in STAGES:
            yield scn_of({st: kind})


def phase_handlers():
    customs = ["custom", "customsub", "customfail"]
    for hs in HANDLER_CONFIGS:
        for kind in customs + ["error", "fail", "skip"]:
            for st in STAGES:
                yield scn_of({st: kind}, hs)
        for k1, k2 in itertools.product(customs + ["fail", "error", "skip", "xfail"], repeat=2):
            if k1 in customs or k2 in customs:
                for s1, s2 in (("test", "tearDown"), ("setUp", "cleanup0"), ("test", "cleanup0")):
                    yield scn_of({s1: k1, s2: k2}, hs)


# the documented way to customise skip reporting: a user handler for the skip class (or a subclass) in front of the stock ones
SKIP_HANDLER_CONFIGS = [
    [{"cls": "SkipTest", "where": "front", "reports": "addSkip"}],
    [{"cls": "SkipSub", "where": "front", "reports": "addSkip"}],
    [{"cls": "SkipSub", "where": "front", "reports": "addSkip"}, {"cls": "SkipTest", "where": "front", "reports": "addSkip"}],
]


def phase_skip_handlers():
    for hs in SKIP_HANDLER_CONFIGS:
        for kind in ("skip", "skipsub", "fail", "error"):
            for st in STAGES:
                yield scn_of({st: kind}, hs)
        for k1, k2 in itertools.product(("fail", "error", "customfail"), ("skip", "skipsub", "skipraise")):
            for s1, s2 in (("test", "tearDown"), ("setUp", "cleanup0"), ("test", "cleanup0"), ("tearDown", "cleanup1")):
                yield scn_of({s1: k1, s2: k2}, hs)


def phase_forced():
    kinds = ["ok", "fail", "error", "skip", "xfail", "uxs", "kbd", "skipsub"]
    for pre in ("mismatch", "force"):
        for s1 in STAGES:
            for kind in kinds:
                yield scn_of({s1: pre + "+" + kind})
                for s2 in STAGES:
                    if s2 != s1 and kind != "ok":
                        yield scn_of({s1: pre + "+ok", s2: kind})


def phase_exhaustive():
    combos = sorted(itertools.product(BASE_KINDS, repeat=len(STAGES)),
                    key=lambda c: sum(k != "ok" for k in c))
    for combo in combos:
        yield scn_of(dict(zip(STAGES, combo)))


def phase_pairs():
    for kind in MULTIS:
        for st in STAGES:
            yield scn_of({st: kind})
    for s1, s2 in itertools.combinations(STAGES, 2):
        for k1, k2 in itertools.product(ALL_KINDS, repeat=2):
            if not (k1 in BASE_KINDS and k2 in BASE_KINDS):  # those are in phase_exhaustive
                yield scn_of({s1: k1, s2: k2})


def phase_random(count=4000):
    rng = random.Random(int(os.environ.get("VERIF_SEED", "0")))
    stages = ["setUp", "test", "tearDown"] + ["cleanup%d" % i for i in range(4)]
    for _ in range(count):
        assign = {}
        for st in stages[:3 + rng.randint(0, 4)]:
            if rng.random() < 0.55:
                b = rng.choice(ALL_KINDS)
                if rng.random() < 0.2:
                    b = rng.choice(["mismatch", "force"]) + "+" + b
                assign[st] = b
            elif rng.random() < 0.1:
                assign[st] = rng.choice(["mismatch", "force"]) + "+ok"
        hs = rng.choice(HANDLER_CONFIGS) if rng.random() < 0.4 else []
        yield scn_of(assign, hs)


PHASES = [("singles", phase_singles), ("forced", phase_forced), ("skip_handlers", phase_skip_handlers), ("exhaustive", phase_exhaustive),
          ("handlers", phase_handlers), ("pairs", phase_pairs), ("random", phase_random)]


def ordered_phases(hint):
    target = str((hint or {}).get("target", ""))
    first = []
    if any(w in target for w in ("_pick_exception", "_run_prepared_result", "_got_user_exception")):
        first = ["exhaustive", "pairs", "handlers"]
    elif any(w in target for w in ("expectThat", "_matchHelper", "_run_core", "_raise_force")):
        first = ["forced", "exhaustive"]
    elif any(w in target for w in ("_report_", "expectFailure", "skipTest", "__init__")):
        first = ["singles", "handlers"]
    rank = {name: i for i, name in enumerate(first)}
    return sorted(PHASES, key=lambda p: rank.get(p[0], len(first)))


def report(scn, verdict):
    observed, required = verdict
    print(json.dumps({"scenario": scn, "observed": observed, "required": required}))
    return 1


def main(argv):
    ap = argparse.ArgumentParser(description=__doc__.splitlines()[0])
    ap.add_argument("--budget", type=float, default=60.0)
    ap.add_argument("--from-obligation", default=None)
    ap.add_argument("--scenario", default=None)
    args = ap.parse_args(argv)
    if args.scenario is not None:
        scn = json.loads(args.scenario)
        verdict = check(scn)
        if verdict:
            return report(scn, verdict)
        print("scenario satisfies C03")
        return 0
    hint = None
    if args.from_obligation:
        try:
            hint = json.loads(args.from_obligation)
        except ValueError:
            hint = None
    deadline = time.monotonic() + args.budget
    total = 0
    for name, gen in ordered_phases(hint if isinstance(hint, dict) else None):
        n = 0
        for scn in gen():
            if time.monotonic() > deadline:
                print("budget exhausted in phase %s after %d scenarios" % (name, total + n))
                return 0
            verdict = check(scn)
            n += 1
            if verdict:
                print("phase %s: violation after %d scenarios" % (name, total + n))
                return report(scn, verdict)
        total += n
        print("phase %-10s %6d scenarios ok" % (name, n))
    print("no violation of C03 in %d scenarios" % total)
    return 0


if __name__ == "__main__":
    try:
        code = main(sys.argv[1:])
    except SystemExit as e:  # argparse
        code = e.code if isinstance(e.code, int) and e.code in (0, 2) else 2
    except BaseException:
        import traceback
        traceback.print_exc()
        code = 2
    sys.stdout.flush()
    sys.exit(code)
