#!/usr/bin/env python
"""Replay / counterexample search for C11: stream decorators forward each event
once, change only their own field, and never alias.

Oracle (from the property statement, observable behaviour only).  A scenario is
a tree of decorators (CopyStreamResult, StreamTagger, TimestampingStreamResult,
StreamToQueue - whose queue the harness drains into the node's child after each
call - and StreamFailFast as a leaf with a recording callback) over recording
sinks (testtools.testresult.doubles.StreamResult), plus a sequence of
startTestRun / status / stopTestRun calls made on the root.  A pure model walks
the same tree and says what every leaf must have seen:
  * every sink below a node gets every call exactly once, in order, no call raises;
  * StreamTagger: tags == (incoming | add) - discard (empty and None are the same);
  * TimestampingStreamResult: a missing timestamp becomes an aware UTC datetime
    inside the [before, after] window of the call; a supplied one is untouched;
  * StreamToQueue: route_code is routing_code or routing_code + "/" + route_code,
    queue items are dicts with exactly the documented keys;
  * StreamFailFast: callback fired once per 'fail' / 'uxsuccess' status only;
  * every other field arrives equal and of the same type as the caller passed
    (omitted arguments arrive as the documented defaults);
  * the caller's tag sets (and the add/discard iterables) are unchanged after
    every call, and the whole log of every sink is re-checked after every call,
    so a tag leaking from one branch into a sibling, or a later event rewriting
    an earlier logged one, is seen.

Enumeration: (1) all 21 depth-1 trees (fan-out 1..3, 5 tagger configs) x 336
single status events (8 statuses x 7 tag forms incl. set/frozenset/None/omitted
x 3 timestamp forms x 2 routes) plus 12 events varying the remaining fields;
(2) 224 depth-2 trees (fan-out 1..2 over 8 subtrees) and 80 depth-3 chains x 9
two-event sequences re-using one tag object; (3) 8000 seeded random (VERIF_SEED)
trees of depth 1..3, fan-out 1..3 with one or two runs of 1..6 events over the
C10 alphabets.  test_id/test_status are passed positionally or by keyword, all
other arguments by keyword (the documented call style).
"""

import argparse
import datetime
import itertools
import json
import os
import queue
import random
import sys
import time
import traceback

FIELDS = ("test_id", "test_status", "test_tags", "runnable", "file_name",
          "file_bytes", "eof", "mime_type", "route_code", "timestamp")
DEFAULTS = dict(test_id=None, test_status=None, test_tags=None, runnable=True,
                file_name=None, file_bytes=None, eof=False, mime_type=None,
                route_code=None, timestamp=None)
UTC = datetime.timezone.utc
BASE = datetime.datetime(2020, 1, 1)
NOW = "<current UTC time>"
STATUSES = [None, "inprogress", "exists", "xfail", "uxsuccess", "success", "fail", "skip"]
KINDS = {"CopyStreamResult": "copy", "_strict_map": "copy", "StreamTagger": "tagger",
         "TimestampingStreamResult": "ts", "StreamFailFast": "failfast",
         "StreamToQueue": "queue"}


class Violation(Exception):
    def __init__(self, observed, required):
        Exception.__init__(self, observed)
        self.observed, self.required = observed, required


# ---------------------------------------------------------------- scenarios
def mk_coll(spec):
    if spec is None:
        return None
    return {"set": set, "frozenset": frozenset, "list": list}[spec[0]](spec[1])


def decode(field, v, cache):
    if v is None:
        return None
    if field == "test_tags":
        key = json.dumps(v)
        if cache is None or key not in cache:
            obj = mk_coll(v)
            if cache is None:
                return obj
            cache[key] = obj
        return cache[key]
    if field == "file_bytes":
        return v.encode("latin-1")
    if field == "timestamp":
        secs, off = v
        tz = None if off is None else datetime.timezone(datetime.timedelta(minutes=off))
        return (BASE + datetime.timedelta(seconds=secs)).replace(tzinfo=tz)
    return v


def path_str(path):
    return ".".join(map(str, path)) or "root"


class Ctx:
    def __init__(self):
        self.sinks, self.ff, self.queues, self.params = {}, {}, [], []
        self.windows, self.step = {}, 0


def build(node, path, ctx):
    from testtools.testresult import doubles, real
    k = node["k"]
    if k == "sink":
        ctx.sinks[path] = doubles.StreamResult()
        return ctx.sinks[path]
    if k == "failfast":
        log = ctx.ff[path] = []
        return real.StreamFailFast(lambda: log.append(ctx.step))
    if k == "queue":
        q = queue.Queue()
        entry = [path, q, real.StreamToQueue(q, node["rc"]), None]
        ctx.queues.append(entry)  # registered before the children: pre-order
        entry[3] = build(node["c"][0], path + (0,), ctx)
        return entry[2]
    kids = [build(c, path + (i,), ctx) for i, c in enumerate(node["c"])]
    if k == "copy":
        return real.CopyStreamResult(kids)
    if k == "ts":
        return real.TimestampingStreamResult(kids[0])
    if k == "tagger":
        add, discard = mk_coll(node["add"]), mk_coll(node["discard"])
        for obj in (add, discard):
            if obj is not None:
                ctx.params.append((obj, list(obj)))
        return real.StreamTagger(kids, add=add, discard=discard)
    raise ValueError("unknown node kind %r" % (k,))


def call(what, obj, name, *args, **kwargs):
    """The only place code under test is called once the tree exists."""
    try:
        return getattr(obj, name)(*args, **kwargs)
    except Exception as e:
        raise Violation("%s: %s raised %s: %s" % (what, name, type(e).__name__, e),
                        "every call is forwarded to every target without raising")


def pump(ctx, step):
    """Drain every StreamToQueue queue (parents first) into that node's child."""
    req = ("StreamToQueue enqueues dicts {'event': 'startTestRun'|'stopTestRun', 'result': "
           "itself} or {'event': 'status', <the ten status keywords>}")
    for path, q, stq, child in ctx.queues:
        while True:
            try:
                d = q.get_nowait()
            except queue.Empty:
                break
            what = "step %d, below queue node %s" % (step, path_str(path))
            kind = d.get("event") if isinstance(d, dict) else None
            if kind in ("startTestRun", "stopTestRun") and set(d) == {"event", "result"} \
                    and d["result"] is stq:
                call(what, child, kind)
            elif kind == "status" and set(d) == set(FIELDS) | {"event"}:
                call(what, child, "status", **{f: d[f] for f in FIELDS})
            else:
                raise Violation("queue node %s enqueued %r" % (path_str(path), d), req)


# -------------------------------------------------------------------- model
def model(node, path, ev, step, out):
    """Append to out[leaf path] what each leaf must observe for event ev."""
    k, status = node["k"], isinstance(ev, dict)
    if k == "sink":
        out[path].append(ev)
        return
    if k == "failfast":
        if status and ev["test_status"] in ("fail", "uxsuccess"):
            out[path].append(step)
        return
    if status and k == "tagger":
        tags = frozenset(ev["test_tags"] or ()) | frozenset(node["add"][1] if node["add"] else ())
        tags -= frozenset(node["discard"][1] if node["discard"] else ())
        ev = dict(ev, test_tags=tags, _tagged=True)
    elif status and k == "ts" and ev["timestamp"] is None:
        ev = dict(ev, timestamp=NOW)
    elif status and k == "queue":
        rc = ev["route_code"]
        ev = dict(ev, route_code=node["rc"] if rc is None else node["rc"] + "/" + rc)
    for i, c in enumerate(node["c"]):
        model(c, path + (i,), ev, step, out)


def show(exp):
    if isinstance(exp, dict):
        return {f: repr(exp[f]) for f in FIELDS}
    return repr(exp)


def mismatch(obs, exp, ctx):
    """None if the logged event obs is what the model requires, else a reason."""
    if not isinstance(exp, dict):
        return None if tuple(obs) == exp else "different call"
    if obs[0] != "status" or len(obs) != len(FIELDS) + 1:
        return "different call"
    for f, got in zip(FIELDS, obs[1:]):
        want = exp[f]
        if f == "test_tags" and exp.get("_tagged"):
            if got is not None and not isinstance(got, (set, frozenset)):
                return "test_tags is not a set"
            ok = frozenset(got or ()) == want
        elif f == "timestamp" and want is NOW:
            lo, hi = ctx.windows[exp["_step"]]
            ok = (isinstance(got, datetime.datetime) and got.tzinfo is not None
                  and got.utcoffset() == datetime.timedelta(0) and lo <= got <= hi)
        elif f == "timestamp" and want is not None:
            ok = (isinstance(got, datetime.datetime) and got.tzinfo == want.tzinfo
                  and got.replace(tzinfo=None) == want.replace(tzinfo=None))
        else:
            ok = type(got) is type(want) and got == want
        if not ok:
            return "field %s differs" % f
    return None


def check(ctx, expected, held, step):
    for obj, snap, where in held:
        if type(obj) is not type(snap) or obj != snap:
            raise Violation("after step %d the caller's %s is %r, was %r" % (step, where, obj, snap),
                            "the caller's argument objects are never mutated")
    for obj, snap in ctx.params:
        if list(obj) != snap:
            raise Violation("after step %d an add/discard argument is %r, was %r" % (step, obj, snap),
                            "the caller's argument objects are never mutated")
    for path, log in ctx.ff.items():
        if log != expected[path]:
            raise Violation({"failfast": path_str(path), "after_step": step, "callback_fired_at_steps": log},
                            "callback fired exactly once for each 'fail'/'uxsuccess' status and for "
                            "nothing else: steps %r" % (expected[path],))
    for path, sink in ctx.sinks.items():
        obs, exp = list(sink._events), expected[path]
        reason, at = None, None
        if len(obs) != len(exp):
            reason = "sink saw %d calls for %d calls made" % (len(obs), len(exp))
        else:
            for at, (o, e) in enumerate(zip(obs, exp)):
                reason = mismatch(o, e, ctx)
                if reason:
                    break
        if reason:
            raise Violation({"sink": path_str(path), "after_step": step, "reason": reason, "log_index": at,
                             "log": [repr(tuple(o)) for o in obs]},
                            {"text": "each call reaches each sink exactly once, in order, with only the "
                                     "fields owned by the decorators on its path changed",
                             "log": [show(e) for e in exp]})


def run_scenario(sc):
    ctx = Ctx()
    try:
        root = build(sc["tree"], (), ctx)
    except (KeyError, ValueError, IndexError):
        raise
    except Exception as e:
        raise Violation("building the decorator tree raised %s: %s" % (type(e).__name__, e),
                        "decorators accept targets, add/discard iterables or None, a queue and a route code")
    expected = {p: [] for p in list(ctx.sinks) + list(ctx.ff)}
    cache = {} if sc.get("reuse_tags") else None
    held = []
    for step, ev in enumerate(sc["events"]):
        ctx.step = step
        if ev in ("start", "stop"):
            name, args, kwargs = ev + "TestRun", (), {}
            mev = (name,)
        else:
            vals = {f: decode(f, v, cache) for f, v in ev["args"].items()}
            if sc.get("shared_tagset") and isinstance(vals.get("test_tags"), set):
                # a producer that keeps ONE "current tags" set, changes it between events and passes that very object each time
                shared = ctx.__dict__.setdefault("shared_tagset", set())
                shared.clear()
                shared.update(vals["test_tags"])
                vals["test_tags"] = shared
                held[:] = [h for h in held if h[0] is not shared]
            pos = list(itertools.takewhile(vals.__contains__, FIELDS[:ev.get("pos", 0)]))
            name, args = "status", tuple(vals[f] for f in pos)
            kwargs = {f: v for f, v in vals.items() if f not in pos}
            mev = dict(DEFAULTS, _step=step, **vals)
            tags = vals.get("test_tags")
            if tags is not None:
                held.append((tags, type(tags)(tags), "test_tags of step %d" % step))
        before = datetime.datetime.now(UTC)
        call("step %d at the root" % step, root, name, *args, **kwargs)
        pump(ctx, step)
        ctx.windows[step] = (before, datetime.datetime.now(UTC))
        model(sc["tree"], (), mev, step, expected)
        check(ctx, expected, held, step)


# -------------------------------------------------------------- enumeration
S, FF = {"k": "sink"}, {"k": "failfast"}
def copy(*c): return {"k": "copy", "c": list(c)}
def tagger(add, discard, *c): return {"k": "tagger", "add": add, "discard": discard, "c": list(c)}
def ts(c): return {"k": "ts", "c": [c]}
def qu(c, rc="q"): return {"k": "queue", "rc": rc, "c": [c]}
def st(pos=2, **args): return {"pos": pos, "args": args}
def run(*evs, **kw): return dict(events=["start"] + list(evs) + ["stop"], **kw)

TAGGER_CFGS = [(None, None), (["set", ["x"]], None), (None, ["set", ["a"]]),
               (["frozenset", ["a", "x"]], ["list", ["a", "b"]]), (["list", []], ["set", []])]
TAG_FORMS = [["set", []], ["set", ["a"]], ["frozenset", ["a"]], ["set", ["a", "b"]], ["frozenset", ["a", "b"]]]
OMIT = "<omit>"


def opt(**kw):
    return {k: v for k, v in kw.items() if v != OMIT}


def phase1():
    trees = [copy(*[S] * n) for n in (1, 2, 3)]
    trees += [tagger(a, d, *[S] * n) for a, d in TAGGER_CFGS for n in (1, 2, 3)]
    trees += [ts(S), qu(S), FF]
    evs = [st(pos=i % 3, test_id="t1", test_status=s, **opt(test_tags=t, timestamp=w, route_code=r))
           for i, (s, t, w, r) in enumerate(itertools.product(
               STATUSES, [OMIT, None] + TAG_FORMS, [OMIT, None, [5, 0]], [OMIT, "r"]))]
    evs += [st(test_id=None, test_status=None, file_name="f", file_bytes="", eof=False),
            st(test_id="t2", file_name="g", file_bytes="x\xff", eof=True, mime_type="text/plain; charset=utf8"),
            st(0, test_id="t1", test_status="fail", runnable=False, route_code=None, timestamp=[9, None]),
            st(1, test_id="t1", test_status="success", runnable=True, timestamp=[7, 60], test_tags=["set", ["x"]]),
            st(0), st(0, test_status="uxsuccess"), st(2, test_id="t1", test_status="exists", route_code="r/s"),
            st(test_id="t1", test_status="skip", test_tags=["frozenset", ["b", "x"]], mime_type="application/octet-stream"),
            st(test_id="", test_status="xfail", route_code="", file_name="", file_bytes="", eof=True),
            st(test_id="t1", test_status="inprogress", timestamp=[0, -90], test_tags=["set", ["a", "b", "x"]]),
            st(0, file_name="f", file_bytes="ab", timestamp=None, test_tags=None, mime_type=None),
            st(1, test_id="t2", test_status="fail", eof=True, runnable=False)]
    return [dict(run(e), tree=t) for t in trees for e in evs]


def phase2():
    subs = [S, FF, copy(S), copy(S, S), tagger(["set", ["x"]], ["set", ["a"]], S), tagger(None, None, S, S), ts(S), qu(S, "p")]
    kids = [(a,) for a in subs[1:]] + [p for p in itertools.product(subs, subs) if p != (S, S)]
    trees = [copy(*k) for k in kids] + [tagger(["list", ["y"]], None, *k) for k in kids]
    trees += [tagger(None, ["frozenset", ["a", "x"]], *k) for k in kids]
    trees += [w(s) for w in (ts, qu) for s in subs[1:]]
    wraps = [lambda c: copy(c), lambda c: tagger(["set", ["x"]], ["list", ["a"]], c), ts, qu]
    lasts = [w(S) for w in wraps] + [FF]
    trees += [w1(w2(l)) for w1 in wraps for w2 in wraps for l in lasts]
    seqs = []
    for (s1, s2), (t1, t2) in itertools.product(
            [("inprogress", "fail"), ("uxsuccess", "success"), (None, "skip")],
            [(["set", ["a"]], ["set", ["a"]]), (["frozenset", ["a", "b"]], None), (OMIT, ["set", []])]):
        seqs.append(run(st(test_id="t1", test_status=s1, **opt(test_tags=t1, timestamp=None)),
                        st(1, test_id="t1", test_status=s2, route_code="r", **opt(test_tags=t2, timestamp=[5, 0])),
                        reuse_tags=True))
    shared = [run(st(test_id="t1", test_status="inprogress", test_tags=["set", ["a"]]),
                  st(test_id="t1", test_status="success", test_tags=["set", ["a", "b"]]),
                  st(test_id="t2", test_status="fail", test_tags=["set", ["b"]]),
                  st(test_id="t3", test_status="skip", test_tags=["set", []]),
                  st(test_id="t4", test_status="success", test_tags=["set", ["x", "a"]]), shared_tagset=True)]
    return [dict(s, tree=t) for t in trees for s in seqs + shared]


def rand_tree(rng, depth):
    if depth == 0:
        return S
    k = rng.choice(["copy", "copy", "tagger", "tagger", "ts", "queue", "failfast"])
    if k == "failfast":
        return FF
    n = rng.randint(1, 3) if k in ("copy", "tagger") else 1
    depths = [depth - 1] + [rng.randint(0, depth - 1) for _ in range(n - 1)]
    rng.shuffle(depths)
    kids = [rand_tree(rng, d) for d in depths]
    if k == "copy":
        return copy(*kids)
    if k == "ts":
        return ts(kids[0])
    if k == "queue":
        return qu(kids[0], rng.choice(["q", "p", ""]))
    coll = lambda: rng.choice([None, [rng.choice(["set", "frozenset", "list"]),
                                      rng.sample(["a", "b", "x", "y"], rng.randint(0, 3))]])
    return tagger(coll(), coll(), *kids)


def rand_event(rng):
    alph = dict(test_id=[None, "t1", "t2"], test_status=STATUSES, test_tags=[None] + TAG_FORMS + [["set", ["b", "y"]]],
                runnable=[True, False], file_name=[None, "f", "g"], file_bytes=[None, "", "x"], eof=[False, True],
                mime_type=[None, "text/plain; charset=utf8"], route_code=[None, "r", "r/s"],
                timestamp=[None, None, [5, 0], [6, 0], [7, 60], [9, None]])
    return st(rng.randint(0, 2), **{f: rng.choice(v) for f, v in alph.items() if rng.random() < 0.6})


def contains(tree, kind):
    return tree["k"] == kind or any(contains(c, kind) for c in tree.get("c", ()))


def phase3(rng, prefer, count=8000):
    for _ in range(count):
        for _try in range(6):
            tree = rand_tree(rng, rng.randint(1, 3))
            if prefer is None or contains(tree, prefer):
                break
        events = []
        for _run in range(rng.choice([1, 1, 2])):
            events += ["start"] + [rand_event(rng) for _ in range(rng.randint(1, 6))] + ["stop"]
        yield {"tree": tree, "events": events, "reuse_tags": rng.random() < 0.5, "shared_tagset": rng.random() < 0.3}


def scenarios(prefer):
    for phase in (phase1(), phase2()):
        if prefer:
            phase.sort(key=lambda sc: not contains(sc["tree"], prefer))
        yield from phase
    yield from phase3(random.Random(int(os.environ.get("VERIF_SEED", "0"))), prefer)


# --------------------------------------------------------------------- main
def report(sc, v):
    print(json.dumps({"scenario": sc, "observed": v.observed, "required": v.required}, default=repr))
    return 1


def main(argv):
    ap = argparse.ArgumentParser(description=__doc__.splitlines()[0])
    ap.add_argument("--budget", type=float, default=60.0)
    ap.add_argument("--from-obligation", default=None)
    ap.add_argument("--scenario", default=None)
    opts = ap.parse_args(argv)
    import testtools.testresult.doubles, testtools.testresult.real  # noqa: F401 (fail early -> exit 2)
    if opts.scenario is not None:
        sc = json.loads(opts.scenario)
        try:
            run_scenario(sc)
        except Violation as v:
            return report(sc, v)
        print("C11: scenario satisfies the property")
        return 0
    prefer = None
    if opts.from_obligation:
        try:
            target = str(json.loads(opts.from_obligation).get("target", ""))
            prefer = next((k for name, k in KINDS.items() if name in target), None)
        except Exception:
            prefer = None
    deadline, n = time.monotonic() + opts.budget, 0
    for sc in scenarios(prefer):
        if time.monotonic() > deadline:
            print("C11: budget used up")
            break
        n += 1
        try:
            run_scenario(sc)
        except Violation as v:
            print("C11: violation in scenario #%d" % n)
            return report(sc, v)
    print("C11: %d scenarios, no violation (testtools from %s)" % (n, os.path.dirname(testtools.__file__)))
    return 0


if __name__ == "__main__":
    try:
        code = main(sys.argv[1:])
    except SystemExit as e:
        code = e.code if e.code in (0, None) else 2
    except BaseException:
        traceback.print_exc()
        code = 2
    sys.stdout.flush()
    sys.exit(code or 0)
