#!/venv/bin/python
"""Replay / counterexample search for C12: ThreadsafeForwardingResult atomicity.

Set-up: N reporter threads, each with its own ThreadsafeForwardingResult, share
ONE target (an instrumented testtools.testresult.doubles.ExtendedTestResult) and
ONE limit-1 semaphore double.  The threads are real threads run in lock step by
a deterministic scheduler: every call on the target, every semaphore acquire and
every release is a scheduling point, so a "schedule" (list of thread indexes) is
replayable exactly.  A fault = the nth call of a named target method raises.

Oracle (from the property statement, observing only the target's event log
tagged with the calling thread, exceptions seen by the reporters and the
scheduler's ready/blocked sets):
  * no schedule deadlocks; at the end the semaphore is free (count 1, never >1);
  * without a fault no reporter call raises;
  * the target's log is a concatenation of units, each made by one thread:
    a run-level call (startTestRun/stopTestRun/stop/done/shouldStop read) or a
    block  time(start) startTest time(end) tags* outcome stopTest  for one test,
    with no event of another thread inside a block;
  * per thread the units arrive in the order the thread reported them, each
    exactly once, each block with that test's own start/end time, its own
    outcome, and tags events whose net effect is that test's tag set (run-level
    tags of that reporter plus the test's local tags);
  * under a fault the block that was hit may stop at the raising call
    (optionally followed by its stopTest); everything else is still required,
    except the tag set of later tests of the reporter that saw the exception.

Enumeration: exhaustive preemption-bounded DFS over schedules for 2 threads x 1
test (all 6 outcomes, bound 2), 2x2, 3x1, 4x1 and run-level mixes (bound 1); a
fault at every target call position of a 2-thread scenario (bound 1) - all of
them first once with bound 0; then seeded-random scenarios (2..4 threads, 1..3 tests, random tags/times/run-level
ops/faults) under random schedules until the budget is used.
"""

import argparse
import datetime
import json
import os
import random
import sys
import threading
import time as _time
import traceback

from testtools import PlaceHolder
from testtools.testresult import ThreadsafeForwardingResult
from testtools.testresult.doubles import ExtendedTestResult

OUTCOMES = ["addSuccess", "addError", "addFailure", "addSkip",
            "addExpectedFailure", "addUnexpectedSuccess"]
RUNLEVEL = ["startTestRun", "stopTestRun", "stop", "done", "shouldStop"]
CALLS = ["time", "startTest", "tags", "stopTest"] + OUTCOMES + RUNLEVEL
T0 = datetime.datetime(2000, 1, 1, tzinfo=datetime.timezone.utc)
REQUIRED = ("per test one contiguous block time(start),startTest,time(end),tags,"
            "outcome,stopTest on the target, never interleaved, every outcome once, "
            "per-thread order and own start time; semaphore always released, no deadlock")


# "that test's tags" holds for every reported test, also for the tests a reporter
# forwards AFTER a target call raised inside one of its earlier blocks (the buffered
# tags of the abandoned block must not reappear).  Was optional until the defect was
# repaired in /repo (fix 7fb8303); C12_LENIENT_TAGS_AFTER_FAULT=1 switches it off.
STRICT = not os.environ.get("C12_LENIENT_TAGS_AFTER_FAULT")


HarnessError = type("HarnessError", (BaseException,), {})  # internal problem: exit 2
Abort = type("Abort", (BaseException,), {})  # unwinds the workers of an abandoned run
Fault = type("Fault", (RuntimeError,), {})  # the injected failure of a target call
Found = type("Found", (Exception,), {})  # carries the JSON line of a violation


def wid():
    return getattr(threading.current_thread(), "widx", None)


class Sched:
    """Runs worker threads one at a time; `chooser(step, ready, last)` picks.

    The thread that reaches a scheduling point picks its successor itself and
    hands over through per-thread semaphores (no switch if it picks itself)."""
    TIMEOUT = 20.0

    def __init__(self, n, chooser):
        self.go = [threading.Semaphore(0) for _ in range(n)]
        self.main, self.abort = threading.Semaphore(0), False
        self.state = ["ready"] * n
        self.chooser, self.trace, self.errors, self.deadlock = chooser, [], [], None

    def _finish(self):
        self.abort = True
        for g in self.go:
            g.release()
        self.main.release()

    def _dispatch(self, me):
        """Pick who runs next; True if the caller itself goes on."""
        ready = [i for i, s in enumerate(self.state) if s == "ready"]
        if not ready or len(self.trace) > 20000:
            if ready:
                self.errors.append("run does not terminate")
            self.deadlock = [i for i, s in enumerate(self.state) if s == "blocked"] or None
            self._finish()
            return False
        chosen = self.chooser(len(self.trace), ready, me)
        self.trace.append((ready, me, chosen))
        if chosen != me:
            self.go[chosen].release()
        return chosen == me

    def _wait(self, me):
        if not self.go[me].acquire(timeout=self.TIMEOUT):
            self.errors.append("worker %d waited too long for its turn" % me)
            raise Abort()
        if self.abort:
            raise Abort()

    def yield_point(self, state="ready"):
        me = wid()
        if me is None:
            return
        self.state[me] = state
        if not self._dispatch(me):
            self._wait(me)

    def _body(self, i, fn):
        try:
            self._wait(i)
            fn()
        except Abort:
            pass
        except BaseException:
            self.errors.append(traceback.format_exc())
        finally:
            self.state[i] = "done"
            if self.errors and not self.abort:
                self._finish()
            elif not self.abort:
                self._dispatch(i)

    def run(self, fns):
        threads = []
        for i, fn in enumerate(fns):
            t = threading.Thread(target=self._body, args=(i, fn), daemon=True)
            t.widx = i
            threads.append(t)
            t.start()
        self._dispatch(None)
        finished = self.main.acquire(timeout=2 * self.TIMEOUT)
        if not finished:
            self._finish()
            raise HarnessError("a worker never came back to the scheduler")
        for t in threads:
            t.join(self.TIMEOUT)
        if self.errors:
            raise HarnessError("worker crashed:\n" + self.errors[0])


class Sem:
    """Limit-1 semaphore double that blocks through the scheduler."""

    def __init__(self, sched):
        self.s, self.count, self.max_count, self.waiters = sched, 1, 1, set()

    def acquire(self, blocking=True, timeout=None):
        self.s.yield_point()
        while self.count == 0:
            if not blocking:
                return False
            if wid() is None:
                raise HarnessError("acquire outside the worker threads would block")
            self.waiters.add(wid())
            self.s.yield_point("blocked")
        self.count -= 1
        return True

    def release(self, n=1):
        self.count += n
        self.max_count = max(self.max_count, self.count)
        for w in self.waiters:
            self.s.state[w] = "ready"
        self.waiters.clear()
        self.s.yield_point()

    __enter__ = acquire

    def __exit__(self, *exc):
        self.release()


class Target(ExtendedTestResult):
    """The shared target: logs (thread, event, faulted); may raise a Fault."""

    def __init__(self, sched, fault):
        self._ss = False
        super().__init__()
        self.s, self.fault, self.seen, self.log = sched, fault, {}, []

    def _call(self, name, args, kwargs):
        self.s.yield_point()
        n = self.seen[name] = self.seen.get(name, -1) + 1
        if self.fault and self.fault["method"] == name and self.fault["nth"] == n:
            self.log.append((wid(), (name,) + tuple(args), True))
            raise Fault("injected: %s #%d" % (name, n))
        before = len(self._events)
        base = getattr(ExtendedTestResult, name, None)
        if name == "shouldStop":
            rv = self._ss
        else:
            rv = base(self, *args, **kwargs) if base else None
        new = self._events[before:] or [(name,) + tuple(args)]
        self.log.extend((wid(), ev, False) for ev in new)
        return rv

    shouldStop = property(lambda self: self._call("shouldStop", (), {}),
                          lambda self, v: setattr(self, "_ss", v))


def _mk(name):
    def method(self, *args, **kwargs):
        return self._call(name, args, kwargs)
    method.__name__ = name
    return method


for _n in CALLS:
    if _n != "shouldStop":
        setattr(Target, _n, _mk(_n))


def when(sec):
    return T0 + datetime.timedelta(seconds=sec)


def do_op(fwd, op, tests):
    k = op[0]
    if k == "time":
        fwd.time(when(op[1]))
    elif k == "tags":
        fwd.tags(set(op[1]), set(op[2]))
    elif k in ("startTest", "stopTest"):
        getattr(fwd, k)(tests[op[1]])
    elif k == "outcome" and op[1] in OUTCOMES:
        kw = {"details": {}} if op[1] in ("addError", "addFailure", "addExpectedFailure") else {}
        getattr(fwd, op[1])(tests[op[2]], **({"reason": "because"} if op[1] == "addSkip" else kw))
    elif k == "shouldStop":
        fwd.shouldStop
    elif k in RUNLEVEL:
        getattr(fwd, k)()
    else:
        raise HarnessError("unknown op %r" % (op,))


def expected_units(ops):
    """What one reporter's op list must produce on the target, in order."""
    units, now, gtags, ltags, start, in_test = [], None, set(), set(), None, False
    for op in ops:
        k = op[0]
        if k == "time":
            now = when(op[1])
        elif k == "tags":
            if in_test:
                ltags = (ltags | set(op[1])) - set(op[2])
            else:
                gtags = (gtags | set(op[1])) - set(op[2])
        elif k == "startTest":
            in_test, start, ltags = True, now, set(gtags)
        elif k == "outcome":
            units.append(("block", op[2], start, now, set(ltags), op[1]))
        elif k == "stopTest":
            in_test = False
        else:
            units.append(("single", k))
            if k == "startTestRun":
                gtags = set()
    return units


def show(log):
    def arg(a):
        if isinstance(a, datetime.datetime):
            return int((a - T0).total_seconds())
        if isinstance(a, (set, frozenset, list, tuple)):
            return sorted(map(str, a))
        return a.id() if hasattr(a, "id") else (a if isinstance(a, (str, int)) else None)
    return [[th, ev[0] + ("!" if f else "")] + [arg(a) for a in ev[1:2 + (ev[0] == "tags")]]
            for th, ev, f in log]


def judge(scn, sched, sem, target, excs, tests):
    """Return a description of the violation, or None."""
    log, fault = target.log, scn.get("fault")
    if sched.deadlock:
        return "deadlock: threads %s blocked on the semaphore forever" % sched.deadlock
    bad = [e for e in excs if not e[2]] if fault else excs
    if bad:
        return "reporter call raised: thread %d op %d: %s" % tuple(bad[0][:2] + [bad[0][3]])
    units = [expected_units(ops) for ops in scn["threads"]]
    pos, lenient, i = [0] * len(units), set(), 0
    while i < len(log):
        th, ev, _ = log[i]
        if th is None or pos[th] >= len(units[th]):
            return "unexpected extra event #%d %s" % (i, show(log[i:i + 1]))
        u = units[th][pos[th]]
        pos[th] += 1
        if u[0] == "single":
            if ev[0] != u[1]:
                return "event #%d: thread %d should deliver %s next, got %s" % (i, th, u[1], ev[0])
            i += 1
            continue
        _, tid, start, end, tags, outcome = u
        test, started, hit, seen_tags = tests[tid], False, False, set()
        for step in (("time", start), ("startTest", test), ("time", end), "TAGS",
                     (outcome, test), ("stopTest", test)):
            while step == "TAGS" and i < len(log) and log[i][0] == th and log[i][1][0] == "tags":
                seen_tags = (seen_tags | set(log[i][1][1])) - set(log[i][1][2])
                hit, i = log[i][2], i + 1
                if hit:
                    break
            if hit:
                break
            if step == "TAGS":
                if seen_tags != tags and (th not in lenient or STRICT):
                    return "test %s got tags %s, its tags are %s" % (tid, sorted(seen_tags), sorted(tags))
                continue
            if i >= len(log):
                return "block of test %s ends early, missing %s" % (tid, step[0])
            if log[i][0] != th:
                return ("event #%d of thread %d interleaved into the block of test %s "
                        "(thread %d), before its %s" % (i, log[i][0], tid, th, step[0]))
            got = log[i][1]
            if got[0] != step[0] or len(got) < 2 or got[1] != step[1]:
                return "event #%d in block of test %s: expected %s, got %s" % (
                    i, tid, show([(th, step, 0)])[0][1:], show(log[i:i + 1])[0][1:])
            started, hit, i = started or step[0] == "startTest", log[i][2], i + 1
            if hit:
                break
        if hit:
            lenient.add(th)
            if (started and i < len(log) and log[i][0] == th
                    and log[i][1][:2] == ("stopTest", test) and log[i - 1][1][0] != "stopTest"):
                i += 1
    for th, us in enumerate(units):
        if pos[th] < len(us):
            return "thread %d: %s never reached the target" % (th, us[pos[th]][:2])
    if sem.count != 1 or sem.max_count > 1:
        return "semaphore count ends at %d (max %d), must be 1" % (sem.count, sem.max_count)
    return None


def run_once(scn, chooser):
    """Run one scenario under one schedule: (violation or None, sched, log)."""
    sched = Sched(len(scn["threads"]), chooser)
    sem, target = Sem(sched), Target(sched, scn.get("fault"))
    tests = {op[1]: PlaceHolder(op[1]) for ops in scn["threads"] for op in ops
             if op[0] == "startTest"}
    excs = []

    def body(idx, ops):
        fwd = ThreadsafeForwardingResult(target, sem)

        def fn():
            for j, op in enumerate(ops):
                try:
                    do_op(fwd, op, tests)
                except Exception as e:
                    excs.append([idx, j, isinstance(e, Fault), repr(e)])
        return fn
    sched.run([body(i, ops) for i, ops in enumerate(scn["threads"])])
    return judge(scn, sched, sem, target, excs, tests), sched, target.log


def replay(prefix, rng=None):
    def chooser(step, ready, last):
        if step < len(prefix) and prefix[step] in ready:
            return prefix[step]
        if rng is not None and (last not in ready or rng.random() < 0.35):
            return rng.choice(ready)
        return last if last in ready else ready[0]
    return chooser


def report(scn, sched, log, why):
    out = dict(scn, schedule=[c for _, _, c in sched.trace])
    raise Found(json.dumps({"scenario": out, "observed": {"violation": why, "target_log": show(log)},
                            "required": REQUIRED}))


def explore(scn, bound, deadline, stats):
    """Every schedule of scn with at most `bound` preemptions (stateless DFS)."""
    stack = [[]]
    while stack and _time.time() < deadline:
        prefix = stack.pop()
        why, sched, log = run_once(scn, replay(prefix))
        stats[0] += 1
        if why:
            report(scn, sched, log, why)
        used = 0
        for i, (ready, last, chosen) in enumerate(sched.trace):
            if i >= len(prefix):
                for alt in ready:
                    if alt != chosen and used + (last in ready and alt != last) <= bound:
                        stack.append([c for _, _, c in sched.trace[:i]] + [alt])
            used += last in ready and chosen != last
    return not stack


def thread_ops(th, outcomes, gtags=None, ltags=None, pre=(), post=(), mid=()):
    ops = [[p] for p in pre]
    for k, oc in enumerate(outcomes):
        tid, base = "t%d.%d" % (th, k), th * 100 + k * 10
        if gtags and k < len(gtags) and gtags[k]:
            ops.append(["tags"] + gtags[k])
        ops += [["time", base], ["startTest", tid]]
        if ltags and k < len(ltags) and ltags[k]:
            ops.append(["tags"] + ltags[k])
        ops += [["time", base + 5], ["outcome", oc, tid], ["stopTest", tid]]
        ops += [[m] for m in mid]
    return ops + [[p] for p in post]


def families():
    """(keywords, name, [(scenario, bound)]) - small exhaustive part."""
    G, L = [[["g"], []], [["h"], ["g"]]], [[["l"], ["g"]], []]
    pairs = [{"threads": [thread_ops(0, [OUTCOMES[i]], G, L),
                          thread_ops(1, [OUTCOMES[(i + 1) % 6]])], "fault": None}
             for i in range(6)]
    multi = [{"threads": [thread_ops(0, ["addSuccess", "addError"], G, L),
                          thread_ops(1, ["addSkip", "addFailure"], None, L[::-1])], "fault": None},
             {"threads": [thread_ops(t, [OUTCOMES[t]], G[t % 2:], L) for t in range(3)], "fault": None},
             {"threads": [thread_ops(t, [OUTCOMES[t + 2]]) for t in range(4)], "fault": None}]
    runlvl = [{"threads": [thread_ops(0, ["addSuccess"], G, None, ["startTestRun"], ["stopTestRun", "done"]),
                           thread_ops(1, ["addFailure"], None, L, ["startTestRun"], ["stop", "stopTestRun"],
                                      ["shouldStop"])], "fault": None},
              {"threads": [thread_ops(0, ["addError", "addSuccess"], G, L, ["startTestRun"], [], ["shouldStop"]),
                           [["stop"], ["shouldStop"], ["done"], ["startTestRun"], ["stopTestRun"]]],
               "fault": None}]
    base = [thread_ops(0, ["addSuccess", "addFailure"], G, L, ["startTestRun"], ["stopTestRun"]),
            thread_ops(1, ["addSkip"], None, L, ["startTestRun"], ["stop", "shouldStop", "done", "stopTestRun"])]
    count = {"time": 6, "startTest": 3, "tags": 4, "stopTest": 3, "addSuccess": 1, "addFailure": 1,
             "addSkip": 1, "startTestRun": 2, "stopTestRun": 2, "stop": 1, "done": 1, "shouldStop": 1}
    faults = [({"threads": base, "fault": {"method": m, "nth": n}}, 1)
              for m in CALLS for n in range(count.get(m, 0))]
    return [(["_add_result_with_semaphore", "add"], "2x1 all outcomes, bound 2", [(s, 2) for s in pairs]),
            (["startTestRun", "stopTestRun", "stop", "done", "shouldStop"], "run-level mixes, bound 1",
             [(s, 1) for s in runlvl]),
            (["tags", "_merge_tags", "startTest", "time"], "2x2 / 3x1 / 4x1, bound 1", [(s, 1) for s in multi]),
            (["fault"], "fault at every target call, bound 1", faults)]


def random_scenario(rng):
    threads = []
    for th in range(rng.randint(2, 4)):
        n = rng.randint(1, 3)
        tag = lambda: [rng.sample("abc", rng.randint(0, 2)), rng.sample("de", rng.randint(0, 1))]
        ops = thread_ops(th, [rng.choice(OUTCOMES) for _ in range(n)],
                         [tag() if rng.random() < .5 else None for _ in range(n)],
                         [tag() if rng.random() < .5 else None for _ in range(n)],
                         ["startTestRun"] if rng.random() < .5 else [],
                         rng.sample(["stopTestRun", "stop", "done", "shouldStop"], rng.randint(0, 3)),
                         ["shouldStop"] if rng.random() < .2 else [])
        threads.append(ops)
    fault = None
    if rng.random() < .4:
        fault = {"method": rng.choice(CALLS), "nth": rng.randint(0, 4)}
    return {"threads": threads, "fault": fault}


def search(budget, hint):
    t0, stats = _time.time(), [0]
    fams = families()
    target = (hint.get("target") or "") if isinstance(hint, dict) else ""
    meth = target.rsplit(".", 1)[-1]
    fams.sort(key=lambda f: not any(k in meth for k in f[0]))  # hinted families first
    for _, _, items in fams:  # breadth first: every scenario without preemptions
        for scn, _ in items:
            explore(scn, 0, t0 + budget * 0.6, stats)
    print("exhaustive: %-36s %5d runs" % ("all scenarios, bound 0", stats[0]))
    for _, name, items in fams:
        before, complete = stats[0], True
        for scn, bound in items:
            complete &= explore(scn, bound, t0 + budget * 0.6, stats)
        print("exhaustive: %-36s %5d runs%s" % (name, stats[0] - before, "" if complete else " (cut by budget)"))
    rng, n = random.Random(int(os.environ.get("VERIF_SEED", "0"))), 0
    while _time.time() < t0 + budget:
        scn = random_scenario(rng)
        for _ in range(4):
            why, sched, log = run_once(scn, replay([], random.Random(rng.getrandbits(32))))
            n += 1
            if why:
                report(scn, sched, log, why)
    print("random: %d runs; total %.1fs, no violation" % (n, _time.time() - t0))


def main():
    ap = argparse.ArgumentParser()
    ap.add_argument("--budget", type=float, default=60.0)
    ap.add_argument("--from-obligation", default=None)
    ap.add_argument("--scenario", default=None)
    args = ap.parse_args()
    try:
        text = args.from_obligation or "{}"
        hint = json.loads(open(text).read() if os.path.isfile(text) else text)
    except (ValueError, OSError):
        hint = {}
    try:
        if args.scenario:
            scn = json.loads(args.scenario)
            why, sched, log = run_once(scn, replay(scn.get("schedule") or []))
            if why:
                report({k: v for k, v in scn.items() if k != "schedule"}, sched, log, why)
            print("scenario holds")
        else:
            search(args.budget, hint)
    except Found as f:
        print(f.args[0])
        return 1
    return 0


if __name__ == "__main__":
    try:
        code = main()
    except SystemExit:
        raise
    except BaseException:
        traceback.print_exc()
        code = 2
    sys.stdout.flush()
    os._exit(code)
