#!/venv/bin/python
"""C18 replay / counterexample search: StreamResultRouter routing and route push/pop.

Oracle (written from the property statement, observing only the event logs of
testtools.testresult.doubles.StreamResult sinks, queue contents and exceptions):

* A tiny model keeps: route rules {first segment -> (sink, consume)}, test-id
  rules {test id -> sink}, the list of sinks registered for start/stop (rules
  added with do_start_stop_run=True, plus the fallback unless the router was
  built with do_start_stop_run=False) and whether a run is in progress.
* router.status(**kw) must append exactly ONE event to exactly ONE log: the
  route rule for the first '/'-segment of kw's route code if such a rule
  exists, else the id rule for kw's test id, else the fallback; with no
  fallback it must raise and nothing is logged anywhere.  The logged event
  must equal what a doubles.StreamResult logs for the same kwargs, except that
  a consuming route rule removes exactly the leading segment ('a' -> None).
* startTestRun / stopTestRun append exactly one marker to every registered
  sink and nothing elsewhere; add_rule(do_start_stop_run=True) during a run
  appends startTestRun to the new sink immediately.
* StreamToQueue(code).status(**kw) enqueues one 'status' dict whose route code
  is code pushed in front of kw's route code and whose other fields are kw's;
  so k nested StreamToQueues followed by k nested consuming routers deliver
  the original event, and ConcurrentStreamTestSuite workers' events reach the
  sink registered (consuming) for their route code, with route codes as emitted.
After every step ALL logs are compared with the model's expected logs.

Enumeration: (1) exhaustive rule sets (2 prefixes x {absent, consume, keep},
3 test ids incl. None x {absent, present}, fallback yes/no = 144) x 68 events;
(2) exhaustive histories of length <= 6 over {start/stop toggle, three add_rule
variants, status, queued status} x 3 fallback configurations; (3) push/pop chains
of depth 1..3 x 9 original route codes, and a small ConcurrentStreamTestSuite
run; (4) seeded-random larger rule sets / histories / fully populated events.
Rule sets never contain two rules for the same key (documented as undefined).
"""

import argparse
import datetime
import itertools
import json
import os
import queue
import random
import sys
import threading
import time

SEGS = ["a", "ab", "0", "b", "x"]
ROUTES = [None, "a", "ab", "b", "a/ab", "ab/a", "a/a", "b/a", "a/b/0", "ab/x/a", "a/a/ab/b", "x/0/b/a", "0/a/a/a"]
IDS = [None, "t", "a", "u"]


def decode(ev):
    """JSON event description -> status() kwargs."""
    kw = dict(ev)
    if kw.get("test_tags") is not None:
        kw["test_tags"] = set(kw["test_tags"])
    if kw.get("file_bytes") is not None:
        kw["file_bytes"] = kw["file_bytes"].encode("latin-1")
    if kw.get("timestamp") is not None:
        kw["timestamp"] = datetime.datetime.fromtimestamp(kw["timestamp"], datetime.timezone.utc)
    return kw


def logged(kw):
    """What a doubles.StreamResult logs for status(**kw): the 'unchanged' reference."""
    from testtools.testresult import doubles

    ref = doubles.StreamResult()
    ref.status(**kw)
    return ref._events[0]


def pushed(code, route):
    return code if route is None else code + "/" + route


def bad(step, observed, required):
    return {"observed": "step %s: %s" % (step, observed), "required": required}


def through_queue(code, kw, step):
    """Send kw through StreamToQueue(code); return (dequeued kwargs, violation)."""
    import testtools

    q = queue.Queue()
    try:
        testtools.StreamToQueue(q, code).status(**kw)
    except Exception as e:
        return None, bad(step, "StreamToQueue(%r).status raised %r" % (code, e), "event is enqueued")
    items = []
    while not q.empty():
        items.append(q.get_nowait())
    want = pushed(code, kw.get("route_code"))
    ok = len(items) == 1 and items[0].get("event") == "status" and items[0].get("route_code") == want
    ok = ok and all(items[0].get(k) == v for k, v in kw.items() if k != "route_code")
    if not ok:
        return None, bad(step, "StreamToQueue(%r) enqueued %r for %r" % (code, items, kw),
                         "one status dict with route_code %r and all other fields unchanged" % (want,))
    d = dict(items[0])
    d.pop("event")
    return d, None


def run_router(sc):
    import testtools
    from testtools.testresult import doubles

    sinks, expect = {}, {}
    fb = None
    if sc.get("fallback"):
        fb = sinks["fallback"] = doubles.StreamResult()
        expect["fallback"] = []
    fb_ssr = sc.get("fallback_ssr", True)
    router = testtools.StreamResultRouter(fb, do_start_stop_run=fb_ssr)
    routes, ids, in_run = {}, {}, False
    registered = ["fallback"] if (fb is not None and fb_ssr) else []

    def route_status(kw, step):
        rc = kw.get("route_code")
        first = rc.split("/")[0] if rc is not None else None
        out = dict(kw)
        if first is not None and first in routes:
            dest, consume = routes[first]
            if consume:
                rest = rc.split("/")[1:]
                out["route_code"] = "/".join(rest) if rest else None
            why = "route rule for %r" % first
        elif kw.get("test_id") in ids:
            dest, why = ids[kw.get("test_id")], "test-id rule for %r" % (kw.get("test_id"),)
        elif fb is not None:
            dest, why = "fallback", "fallback"
        else:
            try:
                router.status(**kw)
            except Exception:
                return None
            return bad(step, "status(%r) returned normally" % (kw,), "raises: no rule matches and there is no fallback")
        expect[dest].append(logged(out))
        try:
            router.status(**kw)
        except Exception as e:
            return bad(step, "status(%r) raised %r" % (kw, e), "delivered once to %s (%s)" % (dest, why))
        return None

    for step, op in enumerate(sc["ops"]):
        kind = op[0]
        v = None
        if kind not in ("add_route", "add_id", "start", "stop", "status", "queued"):
            raise ValueError("unknown op %r" % (op,))
        try:
            if kind in ("add_route", "add_id"):
                name = "sink%d" % step
                sinks[name], expect[name] = doubles.StreamResult(), []
                dssr = op[-1]
                if kind == "add_route":
                    routes[op[1]] = (name, op[2])
                    router.add_rule(sinks[name], "route_code_prefix", route_prefix=op[1],
                                    consume_route=op[2], do_start_stop_run=dssr)
                else:
                    ids[op[1]] = name
                    router.add_rule(sinks[name], "test_id", test_id=op[1], do_start_stop_run=dssr)
                if dssr:
                    registered.append(name)
                    if in_run:
                        expect[name].append(("startTestRun",))
            elif kind in ("start", "stop"):
                for name in registered:
                    expect[name].append((kind + "TestRun",))
                in_run = kind == "start"
                getattr(router, kind + "TestRun")()
            elif kind == "status":
                v = route_status(decode(op[1]), step)
            else:
                kw, v = through_queue(op[1], decode(op[2]), step)
                if v is None:
                    v = route_status(kw, step)
        except Exception as e:
            v = bad(step, "%r raised %r" % (op, e), "no exception")
        if v:
            return v
        got = {n: list(s._events) for n, s in sinks.items()}
        if got != expect:
            diff = {n: {"got": repr(got[n]), "want": repr(expect[n])} for n in got if got[n] != expect[n]}
            return bad(step, "after %r logs differ: %r" % (op, diff),
                       "each status goes to exactly one sink (route rule > id rule > fallback), consuming rules strip "
                       "the first segment only, start/stop reach exactly the registered sinks once")
    return None


def run_chain(sc):
    """k nested StreamToQueue pushes followed by k nested consuming routers."""
    import testtools
    from testtools.testresult import doubles

    codes, orig = sc["codes"], decode(sc["event"])
    final = target = doubles.StreamResult()
    fallbacks = []
    for code in reversed(codes):  # codes[0] is the outermost segment
        fallbacks.append(doubles.StreamResult())
        r = testtools.StreamResultRouter(fallbacks[-1])
        r.add_rule(target, "route_code_prefix", route_prefix=code, consume_route=True)
        target = r
    kw = orig
    for code in reversed(codes):
        kw, v = through_queue(code, kw, "push %r" % code)
        if v:
            return v
    try:
        target.status(**kw)
    except Exception as e:
        return bad("pop", "status(%r) raised %r" % (kw, e), "delivered to the innermost sink")
    want = [logged(orig)]
    if final._events != want or any(f._events for f in fallbacks):
        return bad("pop", "innermost sink got %r, fallbacks got %r" % (final._events, [f._events for f in fallbacks]),
                   "innermost sink gets exactly %r (original route code), fallbacks nothing" % (want,))
    return None


class Emitter:
    def __init__(self, events):
        self.events = events

    def run(self, result):
        for kw in self.events:
            result.status(**kw)


def run_suite(sc):
    """ConcurrentStreamTestSuite workers -> router with one consuming rule per worker code."""
    import testtools
    from testtools.testresult import doubles

    fb = doubles.StreamResult()
    router = testtools.StreamResultRouter(fb)
    sinks, wants, tests = [], [], []
    for i, (code, routes) in enumerate(sc["workers"]):
        evs = [decode({"test_id": "w%d" % i, "test_status": "inprogress", "route_code": r, "timestamp": 1000 + j})
               for j, r in enumerate(routes)]
        sinks.append(doubles.StreamResult())
        wants.append([logged(kw) for kw in evs])
        tests.append((Emitter(evs), code))
        router.add_rule(sinks[-1], "route_code_prefix", route_prefix=code, consume_route=True)
    box = []

    def go():
        try:
            testtools.ConcurrentStreamTestSuite(lambda: tests).run(router)
        except BaseException as e:
            box.append(e)

    t = threading.Thread(target=go, daemon=True)
    t.start()
    t.join(5)
    if t.is_alive():
        print("note: suite scenario did not finish in 5s; skipped (not judged)")
        return None
    if box:
        return bad("suite", "run raised %r" % (box[0],), "all worker events delivered")
    got = [list(s._events) for s in sinks]
    if got != wants or fb._events:
        return bad("suite", "sinks got %r, fallback got %r" % (got, fb._events),
                   "sink i gets exactly worker i's events with their emitted route codes: %r; fallback nothing" % (wants,))
    return None


RUNNERS = {"router": run_router, "chain": run_chain, "suite": run_suite}


def run(sc):
    return RUNNERS[sc.get("kind", "router")](sc)


# ---------------------------------------------------------------- generators
def gen_rulesets():
    events = [{"test_id": t, "route_code": r, "test_status": "inprogress"} for t in IDS for r in ROUTES]
    events += [{"test_id": t, "test_status": "success"} for t in IDS]  # route_code not passed at all
    events += [{"test_id": t, "file_name": "f", "file_bytes": "\x00\xff", "eof": True, "mime_type": "text/plain",
                "test_tags": ["g"], "runnable": False, "timestamp": 86400, "route_code": r}
               for t in ("t", None) for r in ("a/b", "ab", None, "x/a", "a", "b/ab/a/0")]
    for ra, rab, in itertools.product([None, True, False], repeat=2):
        for id_mask in itertools.product([False, True], repeat=3):
            for fallback in (True, False):
                adds = [["add_route", p, c, False] for p, c in (("a", ra), ("ab", rab)) if c is not None]
                adds += [["add_id", t, False] for t, on in zip((None, "t", "a"), id_mask) if on]
                for ev in events:
                    yield {"kind": "router", "fallback": fallback, "fallback_ssr": True, "ops": adds + [["status", ev]]}


def gen_histories():
    alphabet = {"T": None, "R": ["add_route", "a", True, True], "I": ["add_id", "t", True],
                "N": ["add_route", "b", False, False], "S": ["status", {"test_id": "t", "route_code": "a/x"}],
                "Q": ["queued", "a", {"test_id": "u", "route_code": "b"}]}
    for n in range(1, 7):
        for word in itertools.product("TRINSQ", repeat=n):
            if any(word.count(c) > 1 for c in "RIN") or "T" not in word:
                continue
            for fallback, ssr in ((True, True), (True, False), (False, True)):
                ops, in_run = [], False
                for c in word:
                    if c == "T":
                        in_run = not in_run
                        ops.append(["start" if in_run else "stop"])
                    else:
                        ops.append(alphabet[c])
                yield {"kind": "router", "fallback": fallback, "fallback_ssr": ssr, "ops": ops}


def gen_chains():
    origs = [None, "a", "ab", "x/y", "a/ab", "ab/a/a", "0/a/ab", "a/a/a/a", "x/0/ab/a"]
    for n in (1, 2, 3):
        for codes in itertools.product(["a", "ab", "0"], repeat=n):
            for r in origs:
                yield {"kind": "chain", "codes": list(codes), "event": {"test_id": "t", "test_status": "fail", "route_code": r}}
    yield {"kind": "suite", "workers": [["a", [None, "a", "ab/a", "x/y/0/a"]], ["ab", ["a", None, "ab"]], ["0", [None, "0/0"]]]}


def rand_event(rng):
    ev = {"test_id": rng.choice(IDS + ["ab"]), "test_status": rng.choice([None, "exists", "inprogress", "success", "fail"])}
    if rng.random() < 0.9:
        ev["route_code"] = None if rng.random() < 0.2 else "/".join(rng.choice(SEGS) for _ in range(rng.randint(1, 4)))
    if rng.random() < 0.3:
        ev.update(file_name="n", file_bytes=rng.choice(["", "abc", "\xe9\x00"]), eof=rng.random() < 0.5, mime_type="text/x")
    if rng.random() < 0.3:
        ev.update(test_tags=rng.sample(["p", "q", "r"], rng.randint(0, 2)), runnable=rng.random() < 0.5,
                  timestamp=rng.randint(0, 10 ** 9))
    return ev


def gen_random(seed):
    rng = random.Random(seed)
    for _ in range(4000):
        free_routes, free_ids = list(SEGS), list(IDS + ["ab"])
        rng.shuffle(free_routes)
        rng.shuffle(free_ids)
        ops, in_run = [], False
        for _ in range(rng.randint(3, 25)):
            x = rng.random()
            if x < 0.15 and free_routes:
                ops.append(["add_route", free_routes.pop(), rng.random() < 0.6, rng.random() < 0.5])
            elif x < 0.27 and free_ids:
                ops.append(["add_id", free_ids.pop(), rng.random() < 0.5])
            elif x < 0.42:
                in_run = not in_run
                ops.append(["start" if in_run else "stop"])
            elif x < 0.55:
                ops.append(["queued", rng.choice(SEGS), rand_event(rng)])
            else:
                ops.append(["status", rand_event(rng)])
        yield {"kind": "router", "fallback": rng.random() < 0.7, "fallback_ssr": rng.random() < 0.6, "ops": ops}
        if rng.random() < 0.1:
            yield {"kind": "chain", "codes": [rng.choice(SEGS) for _ in range(rng.randint(1, 4))], "event": rand_event(rng)}


def main():
    ap = argparse.ArgumentParser()
    ap.add_argument("--budget", type=float, default=60.0)
    ap.add_argument("--from-obligation", default=None)
    ap.add_argument("--scenario", default=None)
    args = ap.parse_args()
    deadline = time.time() + args.budget

    def report(sc, v):
        print(json.dumps({"scenario": sc, "observed": v["observed"], "required": v["required"]}))
        return 1

    if args.scenario is not None:
        sc = json.loads(args.scenario)
        v = run(sc)
        return report(sc, v) if v else 0

    phases = [("rulesets", gen_rulesets()), ("histories", gen_histories()), ("chains", gen_chains()),
              ("random", gen_random(int(os.environ.get("VERIF_SEED", "0") or 0)))]
    target = ""
    if args.from_obligation:
        try:
            target = str(json.loads(args.from_obligation).get("target", ""))
        except Exception:
            target = ""
    first = None
    if "StreamToQueue" in target or "testsuite" in target:
        first = "chains"
    elif any(s in target for s in ("startTestRun", "stopTestRun", "add_rule", "__init__")):
        first = "histories"
    phases.sort(key=lambda p: p[0] != first)  # stable: the prioritised phase moves to the front
    total = 0
    for name, gen in phases:
        n = 0
        for sc in gen:
            if time.time() > deadline:
                print("budget exhausted in phase %s after %d scenarios" % (name, total + n))
                return 0
            v = run(sc)
            n += 1
            if v:
                print("phase %s: violation after %d scenarios" % (name, total + n))
                return report(sc, v)
        total += n
        print("phase %s: %d scenarios ok" % (name, n))
    return 0


if __name__ == "__main__":
    try:
        code = main()
    except SystemExit:
        raise
    except BaseException:
        import traceback

        traceback.print_exc()
        sys.exit(2)
    sys.exit(code)
